//verif:dir x/pocketcore/types
package types

import (
	"bytes"

	v "github.com/pokt-network/pocket-core/verifrt"
)

//verif:config VerifC30 idealhash=yes
//verif:config VerifC30dup idealhash=yes

// VerifC30: starting from a valid (root, proof, leaf, index), replacing exactly one component by
// an arbitrary different value makes validation fail.
func VerifC30() {
	var n int
	if v.Tier() == 0 {
		n = 3 + v.Choice(2) // 3..4
	} else {
		n = 3 + v.Choice(6) // 3..8
	}
	height := v.I64()
	ps := vmerkleLeaves(n, true)
	root, _ := GenerateRoot(height, vcopy(ps))
	idx := v.Choice(n)
	mp, leaf := GenerateProofs(height, vcopy(ps), idx)
	levels := vlevels(n)
	ok, _ := mp.Validate(height, root, leaf, levels)
	v.Assume(ok) // established by C29

	// deep copy of the sibling list: Validate works on a value copy of the proof but the slice is shared
	hr := make([]HashRange, len(mp.HashRanges))
	copy(hr, mp.HashRanges)
	mp.HashRanges = hr

	kinds := 9
	switch v.Choice(kinds) {
	case 0: // different leaf payload
		b := v.Bytes(2)
		v.Assume(!bytes.Equal(b, leaf.Bytes()))
		leaf = vleaf{b: b}
	case 1: // different target hash
		h := v.Bytes(32)
		v.Assume(!bytes.Equal(h, mp.Target.Hash))
		mp.Target.Hash = h
	case 2: // different target range bound
		x := v.U64()
		if v.Choice(2) == 0 {
			v.Assume(x != mp.Target.Range.Lower)
			mp.Target.Range.Lower = x
		} else {
			v.Assume(x != mp.Target.Range.Upper)
			mp.Target.Range.Upper = x
		}
	case 3: // different index (within the tree: the handler compares it with an index < total)
		x := v.Int64In(0, int64((1<<levels)-1))
		v.Assume(x != mp.TargetIndex)
		mp.TargetIndex = x
	case 4: // different sibling hash
		j := v.Choice(levels)
		h := v.Bytes(32)
		v.Assume(!bytes.Equal(h, mp.HashRanges[j].Hash))
		mp.HashRanges[j].Hash = h
	case 5: // different sibling range bound
		j := v.Choice(levels)
		x := v.U64()
		if v.Choice(2) == 0 {
			v.Assume(x != mp.HashRanges[j].Range.Lower)
			mp.HashRanges[j].Range.Lower = x
		} else {
			v.Assume(x != mp.HashRanges[j].Range.Upper)
			mp.HashRanges[j].Range.Upper = x
		}
	case 6: // different root hash
		h := v.Bytes(32)
		v.Assume(!bytes.Equal(h, root.Hash))
		root.Hash = h
	case 7: // different root range
		x := v.U64()
		if v.Choice(2) == 0 {
			v.Assume(x != root.Range.Lower)
			root.Range.Lower = x
		} else {
			v.Assume(x != root.Range.Upper)
			root.Range.Upper = x
		}
	case 8: // proof for another leaf of the same tree presented with this leaf
		other := v.Choice(n)
		v.Assume(other != idx)
		mp2, _ := GenerateProofs(height, vcopy(ps), other)
		mp2.Target = mp.Target
		mp2.TargetIndex = mp.TargetIndex
		mp = mp2
	}
	valid, _ := mp.Validate(height, root, leaf, levels)
	v.Assert(!valid, "forged-proof-rejected")
}

// VerifC30dup: a tree built over a multiset with a repeated leaf contains a zero-width range, and
// proofs into it are flagged as replay attacks rather than accepted.
func VerifC30dup() {
	n := 3
	height := v.I64()
	ps := make([]Proof, n)
	b0, b1 := v.Bytes(2), v.Bytes(2)
	v.Assume(!bytes.Equal(b0, b1))
	s0, s1 := sumFromHash(merkleHash(b0)), sumFromHash(merkleHash(b1))
	v.Assume(s0 != 0)
	v.Assume(s1 != 0)
	v.Assume(s0 != s1)
	v.Assume(s0 < 0xffffffffffffff00)
	v.Assume(s1 < 0xffffffffffffff00)
	ps[0], ps[1], ps[2] = vleaf{b: b0}, vleaf{b: b1}, vleaf{b: b0} // leaf 0 replayed
	root, _ := GenerateRoot(height, vcopy(ps))
	idx := v.Choice(n)
	mp, leaf := GenerateProofs(height, vcopy(ps), idx)
	valid, replay := mp.Validate(height, root, leaf, 2)
	// any path through the zero-width range [s,s) of the repeated leaf (as target or as sibling)
	// is rejected and reported as a replay; paths that avoid it verify
	through := mp.Target.Range.Lower >= mp.Target.Range.Upper
	for _, h := range mp.HashRanges {
		through = v.Or(through, h.Range.Lower >= h.Range.Upper)
	}
	if through {
		v.Assert(!valid, "zero-width-path-rejected")
		v.Assert(replay, "zero-width-path-flagged-replay")
	} else {
		v.Assert(valid, "clean-path-verifies")
	}
	_ = leaf
}
