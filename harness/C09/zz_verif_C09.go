//verif:dir store/rootmulti
package rootmulti

import (
	"github.com/pokt-network/pocket-core/store/types"
	v "github.com/pokt-network/pocket-core/verifrt"
	"github.com/pokt-network/pocket-core/verifrt/modelkv"
)

//verif:config VerifC09 maxpaths=200000

// VerifC09: blocks 1 and 2 are committed. A historical view of height 1 (LoadLazyVersion, what
// PrevCtx and historical queries use) shows exactly block 1's contents — when taken right away,
// after further uncommitted writes to the live store, after block 3 was committed on top, and
// after another historical view (of height 2) was opened and read in between.
func VerifC09() {
	// keys are drawn from a small concrete set (2 keys quick, 3 thorough) so that the shape of the
	// trees does not multiply the paths; values are arbitrary bytes; the probe is one of the keys
	// or an absent key
	keys := [][]byte{{0x10}, {0x20}}
	if v.Tier() > 0 {
		keys = append(keys, []byte{0x30})
	}
	key := func() []byte { return keys[v.Choice(len(keys))] }
	db := modelkv.NewUnorderedDB()
	rs := mwMustOpen(db)
	ref := mwNewRef()
	b1 := []mwOp{{toB: v.Choice(2) == 1, k: key(), val: v.Bytes(1)}} // a write to either store
	mwApply(rs, b1)
	ref.apply(b1)
	rs.Commit()
	ref1 := ref.clone()
	b2 := []mwOp{{toB: v.Choice(2) == 1, del: v.Choice(2) == 1, k: key(), val: v.Bytes(1)}} // any write or delete
	mwApply(rs, b2)
	ref.apply(b2)
	rs.Commit()
	ref2 := ref.clone()

	probe := append(keys, []byte{0x15})[v.Choice(len(keys)+1)]
	view := func(ver int64, want mwRef, label string) {
		st, err := rs.LoadLazyVersion(ver)
		v.Assert(err == nil, label+"-loads")
		ms := (*st).(types.MultiStore) // as Context.PrevCtx uses it
		v.Assert(mwAgreesAt(ms.GetKVStore(mwA), ms.GetKVStore(mwB), want, probe), label)
	}
	view(1, ref1, "height-1-view-right-after-the-commits")
	// later activity: uncommitted writes, another historical read, then a further committed block
	b3 := []mwOp{{del: v.Choice(2) == 1, k: key(), val: v.Bytes(1)}} // a write or delete in store a
	mwApply(rs, b3)
	view(1, ref1, "height-1-view-during-the-next-block")
	view(2, ref2, "height-2-view-in-between")
	rs.Commit()
	view(1, ref1, "height-1-view-after-a-later-commit")
	view(2, ref2, "height-2-view-after-a-later-commit")
}

// VerifC09deep: a view of an older height must not be disturbed by later structural changes of
// the live tree. Block 1 commits three keys to store a (a tree with an inner node above a right
// subtree of two leaves); block 2 is an arbitrary write; then a key — any of the three — is
// deleted or overwritten in the live store, uncommitted and then committed. A view of height 1
// opened before, between and after these steps reads every key (and an absent one) as block 1
// left them.
func VerifC09deep() {
	keys := [][]byte{{0x10}, {0x20}, {0x30}}
	db := modelkv.NewUnorderedDB()
	rs := mwMustOpen(db)
	ref := mwNewRef()
	b1 := []mwOp{{k: keys[0], val: v.Bytes(1)}, {k: keys[1], val: v.Bytes(1)}, {k: keys[2], val: v.Bytes(1)}}
	mwApply(rs, b1)
	ref.apply(b1)
	rs.Commit()
	ref1 := ref.clone()
	probe := append(append([][]byte{}, keys...), []byte{0x15})[v.Choice(4)]
	view := func(label string) {
		st, err := rs.LoadLazyVersion(1)
		v.Assert(err == nil, label+"-loads")
		ms := (*st).(types.MultiStore)
		v.Assert(mwAgreesAt(ms.GetKVStore(mwA), ms.GetKVStore(mwB), ref1, probe), label)
	}
	view("deep-height-1-view-at-once")
	b2 := []mwOp{{toB: v.Choice(2) == 1, del: v.Choice(2) == 1, k: keys[v.Choice(3)], val: v.Bytes(1)}}
	mwApply(rs, b2)
	rs.Commit()
	b3 := []mwOp{{del: v.Choice(2) == 1, k: keys[v.Choice(3)], val: v.Bytes(1)}}
	mwApply(rs, b3)
	view("deep-height-1-view-during-a-later-block")
	rs.Commit()
	view("deep-height-1-view-after-later-commits")
}
