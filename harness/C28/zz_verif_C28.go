//verif:dir x/apps/keeper
package keeper

import (
	"math/big"

	sdk "github.com/pokt-network/pocket-core/types"
	"github.com/pokt-network/pocket-core/x/apps/types"
	v "github.com/pokt-network/pocket-core/verifrt"
)

// VerifC28stake: a new application is admitted only if every admission condition holds (stake >=
// minimum, chains within the limit, balance covers the stake, staked-application count below the
// maximum), and the stored record then carries exactly the relays-for-stake value and the stake.
func VerifC28stake() {
	w := awNew()
	// zero, one or two applications already staked (count vs MaxApplications in 1..3)
	nStaked := v.Choice(3)
	for i := 0; i < nStaked; i++ {
		w.install(types.Application{Address: w.addrs[i], PublicKey: w.pks[i], Chains: []string{"0001"}, Status: sdk.Staked,
			StakedTokens: sdk.NewInt(20000000000 + int64(i)), MaxRelays: sdk.NewInt(100)})
	}
	bal := w.fund(w.addrs[2])
	nchains := 1 + v.Choice(3) // 1..3 chains against MaxChains = 2
	chains := []string{"0001", "0021", "0040"}[:nchains]
	na := types.Application{Address: w.addrs[2], PublicKey: w.pks[2], Chains: chains, StakedTokens: sdk.ZeroInt()}
	amount := v.BigIn("0", awMaxTokens)
	prePool := w.pool()
	err := w.k.ValidateApplicationStaking(w.ctx, na, sdk.NewIntFromBigInt(amount))
	ok := v.And(amount.Cmp(big.NewInt(w.params.AppStakeMin)) >= 0, v.And(nchains <= 2, v.And(bal.Cmp(amount) >= 0, int64(nStaked) < w.params.MaxApplications)))
	v.Assert((err == nil) == ok, "admitted-iff-all-conditions-hold")
	if err != nil {
		return
	}
	v.Reach("admitted")
	v.Assert(w.k.StakeApplication(w.ctx, na, sdk.NewIntFromBigInt(amount)) == nil, "stake-succeeds-after-validation")
	got, found := w.k.GetApplication(w.ctx, w.addrs[2])
	v.Assert(found && got.IsStaked() && !got.Jailed, "stored-as-staked")
	v.Assert(got.StakedTokens.BigInt().Cmp(amount) == 0, "stored-stake-is-the-amount")
	v.Assert(got.MaxRelays.Equal(w.k.CalculateAppRelays(w.ctx, got)), "stored-relays-is-the-function-of-stake")
	v.Assert(new(big.Int).Sub(w.pool(), prePool).Cmp(amount) == 0, "pool-credited-with-stake")
	v.Assert(w.bal(w.addrs[2]).Cmp(new(big.Int).Sub(bal, amount)) == 0, "balance-debited-with-stake")
	w.checkPool("pool-invariant-after-stake")
}

// VerifC28transfer: a transfer is accepted only from the key of a currently staked application to
// a key that has no application record; it keeps stake, relays and chains, removes the old record
// and its staking-set entry, and moves no coins.
func VerifC28transfer() {
	w := awNew()
	cur := w.arbitraryApp(0)
	w.install(cur)
	targetExists := v.Choice(2) == 1
	if targetExists {
		t := w.arbitraryApp(2)
		w.install(t)
	}
	prePool := w.pool()
	st := w.ctx.KVStore(w.k.storeKey)
	msg := types.MsgStake{PubKey: w.pks[2], Value: sdk.ZeroInt()}
	app, err := w.k.ValidateApplicationTransfer(w.ctx, w.pks[0], msg)
	v.Assert((err == nil) == (cur.IsStaked() && !targetExists), "transfer-only-from-staked-to-fresh-address")
	if err != nil {
		return
	}
	v.Reach("transfer-accepted")
	w.k.TransferApplication(w.ctx, app, msg.PubKey)
	_, oldFound := w.k.GetApplication(w.ctx, w.addrs[0])
	v.Assert(!oldFound, "old-record-removed")
	bz, _ := st.Get(types.KeyForAppInStakingSet(cur))
	v.Assert(bz == nil || !sdk.Address(bz).Equals(w.addrs[0]), "old-staking-entry-removed")
	got, found := w.k.GetApplication(w.ctx, w.addrs[2])
	v.Assert(found, "new-record-exists")
	v.Assert(got.StakedTokens.Equal(cur.StakedTokens) && got.MaxRelays.Equal(cur.MaxRelays), "stake-and-relays-kept")
	v.Assert(len(got.Chains) == len(cur.Chains) && got.Chains[0] == cur.Chains[0], "chains-kept")
	v.Assert(got.IsStaked() && got.Jailed == cur.Jailed, "status-and-jail-kept")
	v.Assert(w.pool().Cmp(prePool) == 0, "no-coins-moved")
	w.checkPool("pool-invariant-after-transfer")
}

// VerifC28restake: a stake request for an ALREADY staked application (edit-stake) with an arbitrary
// amount and 1..3 chains against the limit of 2: whenever it is accepted the chains are within the
// limit, the stake does not decrease, and after StakeApplication the stored record is staked with
// exactly the requested stake and chains.
func VerifC28restake() {
	w := awNew()
	cur := types.Application{Address: w.addrs[0], PublicKey: w.pks[0], Chains: []string{"0001"}, Status: sdk.Staked,
		StakedTokens: sdk.NewIntFromBigInt(v.BigIn("1", awMaxTokens)), MaxRelays: sdk.NewInt(100), Jailed: v.Choice(2) == 1}
	w.install(cur)
	w.fund(w.addrs[0])
	nchains := 1 + v.Choice(3)
	chains := []string{"0001", "0021", "0040"}[:nchains]
	na := types.Application{Address: w.addrs[0], PublicKey: w.pks[0], Chains: chains, StakedTokens: sdk.ZeroInt()}
	amount := v.BigIn("0", awMaxTokens)
	if w.k.ValidateApplicationStaking(w.ctx, na, sdk.NewIntFromBigInt(amount)) != nil {
		return
	}
	v.Reach("restake-admitted")
	v.Assert(nchains <= 2, "restake-chains-within-the-limit")
	v.Assert(amount.Cmp(cur.StakedTokens.BigInt()) >= 0, "restake-never-lowers-the-stake")
	if w.k.StakeApplication(w.ctx, na, sdk.NewIntFromBigInt(amount)) != nil {
		return
	}
	got, found := w.k.GetApplication(w.ctx, w.addrs[0])
	v.Assert(found && got.IsStaked() && got.StakedTokens.BigInt().Cmp(amount) == 0 && len(got.Chains) == nchains, "restake-stored-as-requested")
	w.checkPool("pool-invariant-after-restake")
}
