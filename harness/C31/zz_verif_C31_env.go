//verif:dir x/pocketcore/keeper
//go:build !verifnative

package keeper

import sdk "github.com/pokt-network/pocket-core/types"

func verifEnvC31() (Keeper, sdk.Ctx, sdk.Ctx) { return Keeper{}, nil, nil }
