//verif:dir x/pocketcore/keeper
//go:build verifnative

package keeper

import (
	"testing"

	sdk "github.com/pokt-network/pocket-core/types"
	v "github.com/pokt-network/pocket-core/verifrt"
)

// native: two independent real stores, one per tagged context, parameters written through the
// real Subspace.
func verifEnvC31() (Keeper, sdk.Ctx, sdk.Ctx) {
	t := v.T().(*testing.T)
	ctxS, _, _, _, k, _, _ := createTestInput(t, false)
	ctxN, _, _, _, _, _, _ := createTestInput(t, false)
	for _, p := range v.PendingParams() {
		switch p.Tag {
		case "session":
			k.Paramstore.Set(ctxS, []byte(p.Key), p.Val)
		case "now":
			k.Paramstore.Set(ctxN, []byte(p.Key), p.Val)
		}
	}
	return k, ctxS, ctxN
}
