//verif:dir x/pocketcore/keeper
package keeper

import (
	sdk "github.com/pokt-network/pocket-core/types"
	pc "github.com/pokt-network/pocket-core/x/pocketcore/types"
	v "github.com/pokt-network/pocket-core/verifrt"
	"github.com/tendermint/tendermint/libs/log"
)

// c31ctx is a harness context: height and chain id (= parameter tag) are the harness's, the
// previous-block-hash lookup records which height was asked for and returns arbitrary bytes.
type c31ctx struct {
	sdk.Ctx
	h    int64
	tag  string
	rec  *[]int64
	hash []byte
}

func (c c31ctx) BlockHeight() int64 { return c.h }
func (c c31ctx) ChainID() string    { return c.tag }
func (c c31ctx) Logger() log.Logger { return log.NewNopLogger() }
func (c c31ctx) GetPrevBlockHash(h int64) ([]byte, error) {
	*c.rec = append(*c.rec, h)
	return c.hash, nil
}

// c31pos serves BlocksPerSession per context tag; nothing else of the POS keeper is reachable
// from the kernels under test.
type c31pos struct {
	pc.PosKeeper
	bps map[string]int64
}

func (p c31pos) BlocksPerSession(ctx sdk.Ctx) int64 { return p.bps[ctx.ChainID()] }

// VerifC31: for every height H at which a claim for a session starting at sbh is still accepted
// (session over, claim not mature), the block whose hash seeds the leaf selection has height >= H
// (GetPrevBlockHash(h) is the hash of block h-1, produced before block h is proposed); and the
// selected index lies in [0,total).
func VerifC31() {
	sbh, H := v.Int64In(1, 1000000000), v.Int64In(1, 2000000000)
	bpsS, cswS := v.Int64In(1, 1000), v.Int64In(1, 1000) // parameters as of the session start
	bpsN, cswN := v.Int64In(1, 1000), v.Int64In(1, 1000) // parameters as of the claim height
	total := v.Int64In(1, 1000000000)
	v.ParamFor("session", string(pc.KeyClaimSubmissionWindow), cswS)
	v.ParamFor("now", string(pc.KeyClaimSubmissionWindow), cswN)
	k, baseS, baseN := verifEnvC31()
	k.posKeeper = c31pos{bps: map[string]int64{"session": bpsS, "now": bpsN}}
	var rec []int64
	hash := v.Bytes(32)
	ctxS := c31ctx{Ctx: baseS, h: sbh, tag: "session", rec: &rec, hash: hash}
	ctxN := c31ctx{Ctx: baseN, h: H, tag: "now", rec: &rec, hash: hash}

	// acceptance, as ValidateClaim orders it: the session has ended and the claim is not mature
	sessionEnd := sbh + k.BlocksPerSession(ctxS) - 1
	if H <= sessionEnd {
		return
	}
	if k.ClaimIsMature(ctxN, sbh) {
		return
	}
	v.Reach("accepted")
	header := pc.SessionHeader{ApplicationPubKey: "aa", Chain: "0001", SessionBlockHeight: sbh}
	idx, err := k.getPseudorandomIndex(ctxN, total, header, ctxS)
	v.Assert(err == nil, "index-computed")
	v.Assert(len(rec) == 1, "one-hash-lookup")
	used := rec[0] - 1 // GetPrevBlockHash(h) yields LastBlockId.Hash of block h = hash of block h-1
	v.AssertK(used >= H, "entropy-unknown-at-claim",
		v.Known("C31-K1", H == sbh+cswS*bpsS),
		v.Known("C31-K2", cswN*bpsN != cswS*bpsS))
	v.Assert(v.And(idx >= 0, idx < total), "index-in-range")
	v.Observe("idx", idx)
	v.Observe("asked", rec[0])
}
