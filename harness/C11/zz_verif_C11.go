//verif:dir baseapp
package baseapp

import (
	"bytes"

	sdk "github.com/pokt-network/pocket-core/types"
	v "github.com/pokt-network/pocket-core/verifrt"
	"github.com/pokt-network/pocket-core/verifrt/modelkv"
)

// VerifC11: running a transaction in CheckTx mode or in simulation mode — whatever the ante
// handler and the message handler write, abort or return — leaves the backing store of the
// consensus state byte-for-byte unchanged.
func VerifC11() {
	db := modelkv.NewDB()
	key := sdk.NewKVStoreKey("main")
	// arbitrary pre-existing state
	if v.Choice(2) == 1 {
		db.SetRaw(append([]byte("s/k:main/"), v.Bytes(1)...), v.Bytes(1))
	}
	app := c11app(db, key)
	before := db.Snapshot()
	mode := []runTxMode{runTxModeCheck, runTxModeSimulate}[v.Choice(2)]
	_, _ = app.runTx(mode, []byte("tx-bytes"), c11tx{})
	after := db.Snapshot()
	same := len(before) == len(after)
	if same {
		for i := range before {
			same = v.And(same, v.And(bytes.Equal(before[i].K, after[i].K), bytes.Equal(before[i].V, after[i].V)))
		}
	}
	v.Assert(same, "check-and-simulate-leave-state-unchanged")
}
