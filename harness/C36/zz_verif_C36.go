//verif:dir x/gov/keeper
package keeper

import (
	"bytes"
	"math/big"

	"github.com/pokt-network/pocket-core/codec"
	sdk "github.com/pokt-network/pocket-core/types"
	"github.com/pokt-network/pocket-core/x/auth"
	authKeeper "github.com/pokt-network/pocket-core/x/auth/keeper"
	authTypes "github.com/pokt-network/pocket-core/x/auth/types"
	"github.com/pokt-network/pocket-core/x/gov/types"
	v "github.com/pokt-network/pocket-core/verifrt"
	"github.com/pokt-network/pocket-core/verifrt/vworld"
)

var c36people = []sdk.Address{sdk.Address([]byte("governor-address-aaa")), sdk.Address([]byte("governor-address-bbb")), sdk.Address([]byte("governor-address-ccc"))}

type c36world struct {
	k    Keeper
	ak   authKeeper.Keeper
	ctx  *vworld.Ctx
	keys []string
	acl  types.ACL
	dao  sdk.Address
}

// c36new: gov keeper over the real bank; an ACL giving each of three parameters an arbitrary owner
// among three people, an arbitrary DAO owner, an arbitrary DAO balance.
func c36new() *c36world {
	codec.UpgradeFeatureMap = map[string]int64{}
	codec.TestMode = -3
	w := &c36world{ctx: vworld.New(v.Int64In(50000, 1000000))}
	cdc := verifCodec()
	perms := map[string][]string{auth.FeeCollectorName: nil, types.DAOAccountName: {auth.Burner, auth.Staking}}
	w.ak = authKeeper.NewKeeper(cdc, sdk.NewKVStoreKey(authTypes.StoreKey), sdk.NewSubspace(auth.DefaultParamspace), perms)
	pos := sdk.NewSubspace("pos").WithKeyTable(sdk.NewKeyTable([]byte("MaxValidators"), int64(0), []byte("StakeMinimum"), int64(0)))
	w.k = NewKeeper(cdc, sdk.ParamsKey, sdk.ParamsTKey, "gov", w.ak, pos)
	w.keys = []string{"pos/MaxValidators", "pos/StakeMinimum", "gov/daoOwner"}
	for _, key := range w.keys {
		if o := v.Choice(4); o < 3 {
			w.acl.SetOwner(key, c36people[o])
		} // o == 3: the parameter has no ACL entry at all — nobody owns it, nobody may change it
	}
	w.dao = c36people[v.Choice(3)]
	params := types.Params{ACL: w.acl, DAOOwner: w.dao, Upgrade: types.Upgrade{}}
	if v.Native() {
		w.k.SetParams(w.ctx, params)
		pos.Set(w.ctx, []byte("MaxValidators"), int64(5000))
		pos.Set(w.ctx, []byte("StakeMinimum"), int64(15000000000))
	} else {
		v.Param(string(types.ACLKey), params.ACL)
		v.Param(string(types.DAOOwnerKey), params.DAOOwner)
		v.Param(string(types.UpgradeKey), params.Upgrade)
		v.Param("MaxValidators", int64(5000))
		v.Param("StakeMinimum", int64(15000000000))
	}
	w.ak.SetSupply(w.ctx, authTypes.NewSupply(sdk.NewCoins()))
	return w
}

func (w *c36world) raw(aclKey string) []byte {
	sub, key := types.SplitACLKey(aclKey)
	bz, _ := w.k.spaces[sub].GetRaw(w.ctx, []byte(key))
	return bz
}

// VerifC36param: a parameter change succeeds only for the owner of THAT parameter and then changes
// exactly that parameter; anybody else's attempt changes nothing.
func VerifC36param() {
	w := c36new()
	ki := v.Choice(len(w.keys))
	signer := append(c36people, sdk.Address([]byte("stranger-address-xxx")))[v.Choice(4)]
	before := make([][]byte, len(w.keys))
	for j, key := range w.keys {
		before[j] = w.raw(key)
	}
	val := []byte(`"7"`)
	if w.keys[ki] == "gov/daoOwner" {
		val = []byte(`"aabbccddeeff00112233445566778899aabbccdd"`)
	}
	res := w.k.ModifyParam(w.ctx, w.keys[ki], val, signer)
	owner := w.acl.GetOwner(w.keys[ki])
	isOwner := owner != nil && signer.Equals(owner)
	v.Assert(res.IsOK() == isOwner, "change-accepted-iff-signer-owns-that-parameter")
	for j, key := range w.keys {
		changed := !bytes.Equal(w.raw(key), before[j])
		if j == ki && isOwner {
			v.Assert(changed, "owner-change-takes-effect")
		} else {
			v.Assert(!changed, "nothing-else-changes")
		}
	}
}

// VerifC36dao: only the DAO owner moves or burns DAO funds, by exactly the amount or not at all.
func VerifC36dao() {
	w := c36new()
	daoBal := v.BigIn("0", "1000000000000000")
	dao := w.ak.GetModuleAccount(w.ctx, types.DAOAccountName)
	_ = dao.SetCoins(sdk.NewCoins(sdk.NewCoin(sdk.DefaultStakeDenom, sdk.NewIntFromBigInt(daoBal))))
	w.ak.SetModuleAccount(w.ctx, dao)
	w.ak.SetSupply(w.ctx, authTypes.NewSupply(sdk.NewCoins(sdk.NewCoin(sdk.DefaultStakeDenom, sdk.NewIntFromBigInt(daoBal)))))
	signer := append(c36people, sdk.Address([]byte("stranger-address-xxx")))[v.Choice(4)]
	to := c36people[0]
	amt := v.BigIn("1", "1000000000000000")
	burn := v.Choice(2) == 1
	var res sdk.Result
	if burn {
		res = w.k.DAOBurn(w.ctx, signer, sdk.NewIntFromBigInt(amt))
	} else {
		res = w.k.DAOTransferFrom(w.ctx, signer, to, sdk.NewIntFromBigInt(amt))
	}
	ok := signer.Equals(w.dao) && amt.Cmp(daoBal) <= 0
	v.Assert(res.IsOK() == ok, "dao-operation-iff-owner-and-covered")
	gotDao := w.k.GetDAOTokens(w.ctx).BigInt()
	gotTo := w.ak.GetCoins(w.ctx, to).AmountOf(sdk.DefaultStakeDenom).BigInt()
	supply := w.ak.GetSupply(w.ctx).GetTotal().AmountOf(sdk.DefaultStakeDenom).BigInt()
	if !ok {
		v.Assert(gotDao.Cmp(daoBal) == 0 && gotTo.Sign() == 0 && supply.Cmp(daoBal) == 0, "failed-dao-operation-changes-nothing")
		return
	}
	v.Assert(gotDao.Cmp(new(big.Int).Sub(daoBal, amt)) == 0, "dao-debited-exactly")
	if burn {
		v.Assert(supply.Cmp(new(big.Int).Sub(daoBal, amt)) == 0 && gotTo.Sign() == 0, "burn-reduces-supply-exactly")
	} else {
		v.Assert(gotTo.Cmp(amt) == 0 && supply.Cmp(daoBal) == 0, "transfer-credits-recipient-exactly")
	}
}

// VerifC36upgrade: a protocol upgrade (HandleUpgrade, before and after the codec upgrade height)
// is accepted only from the owner of gov/upgrade; anybody else's attempt leaves the stored upgrade
// and the process-wide upgrade globals untouched.
func VerifC36upgrade() {
	w := c36new()
	upKey := types.NewACLKey(types.ModuleName, string(types.UpgradeKey))
	owner := c36people[v.Choice(3)]
	w.acl.SetOwner(upKey, owner)
	if v.Native() {
		w.k.SetParams(w.ctx, types.Params{ACL: w.acl, DAOOwner: w.dao, Upgrade: types.Upgrade{}})
	} else {
		v.Param(string(types.ACLKey), w.acl)
	}
	// the block height lies on either side of the codec upgrade height
	if v.Choice(2) == 1 {
		codec.UpgradeHeight = w.ctx.Height + 1 // not yet upgraded
	} else {
		codec.UpgradeHeight = 1
	}
	signer := append(c36people, sdk.Address([]byte("stranger-address-xxx")))[v.Choice(4)]
	before := w.raw(upKey)
	gh, gf := codec.UpgradeHeight, len(codec.UpgradeFeatureMap)
	up := types.Upgrade{Height: w.ctx.Height + 100, Version: "1.0.0"}
	res := w.k.HandleUpgrade(w.ctx, upKey, up, signer)
	v.Assert(res.IsOK() == signer.Equals(owner), "upgrade-accepted-iff-signer-owns-gov-upgrade")
	if !signer.Equals(owner) {
		v.Assert(bytes.Equal(w.raw(upKey), before) && codec.UpgradeHeight == gh && len(codec.UpgradeFeatureMap) == gf, "refused-upgrade-changes-nothing")
	} else {
		v.Assert(!bytes.Equal(w.raw(upKey), before), "owner-upgrade-is-stored")
	}
}
