//verif:dir x/nodes/keeper
package keeper

import (
	"math/big"
	"time"

	sdk "github.com/pokt-network/pocket-core/types"
	"github.com/pokt-network/pocket-core/x/nodes/types"
	v "github.com/pokt-network/pocket-core/verifrt"
)

// VerifC25slash: a (simple) slash of an arbitrary amount burns min(amount, stake) >= 0, exactly
// what is removed from the node; pool and supply drop by it; a node that falls below the minimum
// stake is jailed and queued to unstake.
func VerifC25slash() {
	w := nwNew(false)
	stake := v.BigIn("1", nwMaxTokens)
	val := types.Validator{Address: w.addrs[0], PublicKey: w.pks[0], ServiceURL: "https://n0:443", Chains: []string{nwChains[0]},
		Status: []sdk.StakeStatus{sdk.Staked, sdk.Unstaking}[v.Choice(2)], Jailed: v.Choice(2) == 1,
		StakedTokens: sdk.NewIntFromBigInt(stake), OutputAddress: w.out}
	if val.Status == sdk.Unstaking {
		val.UnstakingCompletionTime = time.Unix(v.Int64In(1000000, 2000000000), 0).UTC()
	}
	w.install(val)
	amount := v.BigIn("-5", nwMaxTokens+"0")
	prePool, preSupply := w.pool(), w.k.TotalTokens(w.ctx).BigInt()
	w.k.simpleSlash(w.ctx, w.addrs[0], sdk.NewIntFromBigInt(amount))
	got, found := w.k.GetValidator(w.ctx, w.addrs[0])
	v.Assert(found, "slashed-node-still-recorded")
	burned := new(big.Int).Sub(prePool, w.pool())
	removed := new(big.Int).Sub(stake, got.StakedTokens.BigInt())
	want := new(big.Int).Set(amount)
	if want.Cmp(stake) > 0 {
		want = stake
	}
	if want.Sign() < 0 {
		want = new(big.Int)
	}
	v.Assert(burned.Cmp(want) == 0, "burns-min-of-amount-and-stake")
	v.Assert(burned.Cmp(removed) == 0, "burned-equals-removed-from-node")
	v.Assert(new(big.Int).Sub(preSupply, w.k.TotalTokens(w.ctx).BigInt()).Cmp(burned) == 0, "supply-drops-by-burn")
	v.Assert(got.StakedTokens.BigInt().Sign() >= 0, "stake-never-negative")
	if amount.Sign() > 0 && got.StakedTokens.BigInt().Cmp(big.NewInt(w.params.StakeMinimum)) < 0 {
		v.Assert(got.Jailed, "below-minimum-is-jailed")
		v.Assert(w.k.IsWaitingValidator(w.ctx, w.addrs[0]), "below-minimum-is-queued-to-unstake")
	}
	w.checkPool("pool-invariant-after-slash")
	w.checkIndexes("indexes-after-slash")
	v.Observe("burned", burned)
}

// VerifC25unjail: an unjail request succeeds only for an authorized signer, a jailed node with at
// least the minimum stake, and once block time has reached the end of the jail period.
func VerifC25unjail() {
	w := nwNew(false)
	stake := v.BigIn("1", nwMaxTokens)
	val := types.Validator{Address: w.addrs[0], PublicKey: w.pks[0], ServiceURL: "https://n0:443", Chains: []string{nwChains[0]},
		Status: sdk.Staked, Jailed: v.Choice(2) == 1, StakedTokens: sdk.NewIntFromBigInt(stake)}
	if v.Choice(2) == 1 {
		val.OutputAddress = w.out
	}
	w.install(val)
	until := time.Unix(v.Int64In(1000000, 2000000000), 0).UTC()
	w.k.SetValidatorSigningInfo(w.ctx, w.addrs[0], types.ValidatorSigningInfo{Address: w.addrs[0], StartHeight: 1, JailedUntil: until})
	signer := []sdk.Address{w.addrs[0], w.out, w.addrs[2]}[v.Choice(3)]
	_, err := w.k.ValidateUnjailMessage(w.ctx, types.MsgUnjail{ValidatorAddr: w.addrs[0], Signer: signer})
	if err != nil {
		return
	}
	v.Reach("unjail-accepted")
	authorized := signer.Equals(w.addrs[0]) || (val.OutputAddress != nil && signer.Equals(w.out))
	v.Assert(authorized, "unjail-only-by-operator-or-output")
	v.Assert(val.Jailed, "unjail-only-if-jailed")
	v.Assert(stake.Cmp(big.NewInt(w.params.StakeMinimum)) >= 0, "unjail-needs-minimum-stake")
	v.Assert(!w.ctx.Time.Before(until), "unjail-only-after-jail-period-in-block-time")
	w.k.UnjailValidator(w.ctx, w.addrs[0])
	got, _ := w.k.GetValidator(w.ctx, w.addrs[0])
	v.Assert(!got.Jailed, "unjailed")
	w.checkIndexes("indexes-after-unjail")
}

// VerifC25signature: the missed-block counter and jailing threshold — after one signature event the
// counter moves by at most one in the right direction, and the node is jailed exactly when the
// counter exceeds window - minSigned.
func VerifC25signature() {
	w := nwNew(false)
	val := types.Validator{Address: w.addrs[0], PublicKey: w.pks[0], ServiceURL: "https://n0:443", Chains: []string{nwChains[0]},
		Status: sdk.Staked, StakedTokens: sdk.NewInt(20000000000)}
	w.install(val)
	window := int64(10)
	minSigned := v.Int64In(1, 10)
	missed := v.Int64In(0, 9)
	idx := v.Int64In(0, 9)
	info := types.ValidatorSigningInfo{Address: w.addrs[0], StartHeight: 1, Index: idx, MissedBlocksCounter: missed, JailedUntil: time.Unix(0, 0)}
	w.k.SetValidatorSigningInfo(w.ctx, w.addrs[0], info)
	prev := v.Choice(2) == 1
	kidx := v.Concretize(idx, 0, 9)
	w.k.SetValidatorMissedAt(w.ctx, w.addrs[0], kidx, prev)
	signed := v.Choice(2) == 1
	w.ctx.Height = 40001 // not a window boundary
	w.k.handleValidatorSignature(w.ctx, w.addrs[0], 20000, signed, window, minSigned, 600*time.Second, sdk.NewDecWithPrec(1, 6))
	got, _ := w.k.GetValidatorSigningInfo(w.ctx, w.addrs[0])
	node, _ := w.k.GetValidator(w.ctx, w.addrs[0])
	wantMissed := missed
	if !prev && !signed {
		wantMissed = missed + 1
	}
	if prev && signed {
		wantMissed = missed - 1
	}
	jailedNow := wantMissed > window-minSigned
	v.Assert(node.Jailed == jailedNow, "jailed-iff-missed-exceeds-threshold")
	if !jailedNow {
		v.Assert(got.MissedBlocksCounter == wantMissed, "missed-counter-step")
		v.Assert(got.Index == idx+1, "index-advances")
	} else {
		v.Assert(got.JailedUntil.Equal(w.ctx.Time.Add(600*time.Second)), "jailed-until-is-blocktime-plus-duration")
		v.Assert(node.StakedTokens.BigInt().Cmp(big.NewInt(20000000000)) < 0, "downtime-slash-applied")
	}
	w.checkPool("pool-invariant-after-signature")
	w.checkIndexes("indexes-after-signature")
}
