//verif:dir x/auth/types
package types

import (
	"bytes"

	v "github.com/pokt-network/pocket-core/verifrt"
)

//verif:config VerifC16proto unwind=12
// bound: buffers of 2..3 bytes (quick) / 2..4 bytes (thorough); a coin amount (needs 5 bytes) stays outside it

// VerifC16proto: the wire form of the signed content. ProtoStdTx.Unmarshal is run on an arbitrary
// buffer; whenever it succeeds, re-encoding the decoded value must give the same bytes back —
// otherwise two different byte strings (different hashes, so both pass every duplicate check)
// carry the same signed content.
func VerifC16proto() {
	n := 2 + v.Choice(2+v.Tier())
	b := v.Bytes(n)
	var m ProtoStdTx
	if m.Unmarshal(b) != nil {
		return
	}
	v.Reach("decoded")
	c, err := m.Marshal()
	v.Assert(err == nil, "decoded-value-re-encodes")
	// (b and c are both accepted and carry the same content: c decodes back to m)
	var m2 ProtoStdTx
	v.Assert(m2.Unmarshal(c) == nil && c16same(&m, &m2), "re-encoding-decodes-to-the-same-content")
	v.AssertK(bytes.Equal(b, c), "only-the-canonical-encoding-decodes", v.Known("C16-K2", true))
}

func c16same(a, b *ProtoStdTx) bool {
	if a.Memo != b.Memo || a.Entropy != b.Entropy || len(a.Fee) != len(b.Fee) {
		return false
	}
	for i := range a.Fee {
		x, _ := a.Fee[i].Amount.Marshal() // (a zero-value amount has a nil big.Int; Marshal copes)
		y, _ := b.Fee[i].Amount.Marshal()
		if a.Fee[i].Denom != b.Fee[i].Denom || !bytes.Equal(x, y) {
			return false
		}
	}
	if a.Msg.TypeUrl != b.Msg.TypeUrl || !bytes.Equal(a.Msg.Value, b.Msg.Value) {
		return false
	}
	return bytes.Equal(a.Signature.PublicKey, b.Signature.PublicKey) && bytes.Equal(a.Signature.Signature, b.Signature.Signature)
}
