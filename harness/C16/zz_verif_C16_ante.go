//verif:dir x/auth
package auth

import (
	"bytes"

	sdk "github.com/pokt-network/pocket-core/types"
	"github.com/pokt-network/pocket-core/x/auth/types"
	v "github.com/pokt-network/pocket-core/verifrt"
	"github.com/tendermint/tendermint/crypto/tmhash"
	abci "github.com/tendermint/tendermint/abci/types"
	tmtypes "github.com/tendermint/tendermint/types"
)

//verif:config VerifC16ante native=no idealhash=yes

// c16Indexer: the node's transaction index after one executed transaction `done` (executed =
// got past the ante handler; its handler may have failed: arbitrary result code): Get finds a
// result exactly for the hash AddBatch stored it under.
type c16Indexer struct {
	tmIndexer
	done  []byte
	code  uint32
	asked *[][]byte
}

func (ix c16Indexer) Get(hash []byte) (*tmtypes.TxResult, error) {
	*ix.asked = append(*ix.asked, hash)
	if bytes.Equal(hash, tmhash.Sum(ix.done)) {
		// (the executed transaction may have failed in its handler: any result code)
		return &tmtypes.TxResult{Tx: ix.done, Result: abci.ResponseDeliverTx{Code: ix.code}}, nil
	}
	return nil, nil
}

// VerifC16ante: a later block — the ante handler accepts transaction bytes only if no executed
// transaction with the same bytes is indexed (lookup key = hash of the raw bytes under test).
func VerifC16ante() {
	w := authWorldNew()
	w.setAccount(0, bigInt(50000), true)
	done, txBz := v.Bytes(2), v.Bytes(2)
	sig := types.StdSignature{Signature: v.Bytes(2), PublicKey: w.keys[0]}
	tx := types.StdTx{Msg: awMsg{signers: []sdk.Address{w.addrs[0]}}, Fee: sdk.NewCoins(sdk.NewCoin(sdk.DefaultStakeDenom, sdk.NewInt(10000))), Signature: sig, Memo: "m", Entropy: v.I64()}
	var asked [][]byte
	var err sdk.Error
	if v.ExpectPanic(func() {
		_, err = ValidateTransaction(w.ctx, w.k, tx, w.params, c16Indexer{done: done, code: v.U32(), asked: &asked}, txBz, v.Choice(2) == 1)
	}) {
		return
	}
	if err != nil {
		return
	}
	v.Reach("accepted")
	v.Assert(len(asked) == 1 && bytes.Equal(asked[0], tmhash.Sum(txBz)), "index-consulted-under-the-hash-of-these-bytes")
	v.Assert(!bytes.Equal(txBz, done), "already-executed-bytes-rejected")
}
