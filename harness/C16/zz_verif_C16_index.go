//verif:dir types
package types

import (
	v "github.com/pokt-network/pocket-core/verifrt"
	"github.com/pokt-network/pocket-core/verifrt/modelkv"
	"github.com/tendermint/tendermint/state/txindex"
	tmtypes "github.com/tendermint/tendermint/types"
)

// VerifC16index: the record the duplicate check relies on. A block's results (3 transactions,
// arbitrary result code and codespace each) go through the real AddBatch (or Index, one by one):
// afterwards Get(hash) finds a transaction exactly if it got past the ante handler (i.e. it is not
// an auth-codespace error below the ante-handler limit) — wherever it stands in the block.
func VerifC16index() {
	db := modelkv.NewDB()
	t := NewTransactionIndexer(db)
	const n = 3
	b := txindex.NewBatch(n)
	var rs []*tmtypes.TxResult
	for j := 0; j < n; j++ {
		r := &tmtypes.TxResult{Height: 7, Index: uint32(j), Tx: tmtypes.Tx([]byte{'t', 'x', byte('0' + j)})}
		r.Result.Code = v.U32()
		r.Result.Codespace = []string{"", AuthCodespace, "pos"}[v.Choice(3)]
		r.Result.Signer = Address("signer-address-aaaaa")
		rs = append(rs, r)
		_ = b.Add(r)
	}
	if v.Choice(2) == 1 {
		v.Assert(t.AddBatch(b) == nil, "addbatch-ok")
	} else {
		for _, r := range rs {
			v.Assert(t.Index(r) == nil, "index-ok")
		}
	}
	for _, r := range rs {
		got, err := t.Get(r.Tx.Hash())
		v.Assert(err == nil, "get-ok")
		executed := v.Not(v.And(r.Result.Codespace == AuthCodespace, r.Result.Code < AnteHandlerMaxError))
		v.Assert(v.Iff(got != nil, executed), "indexed-iff-past-the-ante-handler")
	}
}
