//verif:dir baseapp
package baseapp

import (
	"github.com/pokt-network/pocket-core/codec"
	"github.com/pokt-network/pocket-core/crypto"
	sdk "github.com/pokt-network/pocket-core/types"
	v "github.com/pokt-network/pocket-core/verifrt"
	"github.com/pokt-network/pocket-core/verifrt/modelkv"
	abci "github.com/tendermint/tendermint/abci/types"
)

// VerifC16deliver: the same transaction bytes delivered twice in one block take effect once — the
// second delivery is rejected as a duplicate before the message handler runs (block-level cache,
// active with the REDUP feature); different bytes are both executed.
func VerifC16deliver() {
	codec.UpgradeFeatureMap = map[string]int64{codec.TxCacheEnhancementKey: 1}
	cdc = codec.NewCodec(nil)
	db := modelkv.NewDB()
	key := sdk.NewKVStoreKey("main")
	app := c11app(db, key)
	app.cms.Commit() // version 1: the REDUP feature (activation height 1) is active from here on
	v.Assume(app.LastBlockHeight() == 1)
	app.setDeliverState(abci.Header{Height: 2, ChainID: "verif"})
	app.deliverState.ctx = app.deliverState.ctx.WithBlockGasMeter(sdk.NewInfiniteGasMeter()) // as BeginBlock does
	runs := 0
	app.anteHandler = nil
	app.router = NewRouter()
	app.router.AddRoute("verif", func(ctx sdk.Ctx, msg sdk.Msg, signer crypto.PublicKey) sdk.Result {
		runs++
		return sdk.Result{}
	})
	app.txDecoder = func(txBytes []byte, h int64) (sdk.Tx, sdk.Error) { return c11tx{}, nil }
	tx1 := v.Bytes(2)
	tx2 := v.Bytes(2)
	r1 := app.DeliverTx(abci.RequestDeliverTx{Tx: tx1})
	r2 := app.DeliverTx(abci.RequestDeliverTx{Tx: tx2})
	v.Assert(r1.Code == 0, "first-delivery-executes")
	same := tx1[0] == tx2[0] && tx1[1] == tx2[1]
	if same {
		v.Assert(r2.Code == codeDuplicateTransaction, "identical-bytes-rejected-as-duplicate")
		v.Assert(runs == 1, "duplicate-does-not-run-the-handler")
	} else {
		v.Assert(r2.Code == 0 && runs == 2, "different-bytes-both-execute")
	}
}
