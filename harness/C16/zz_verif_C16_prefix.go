//verif:dir codec
package codec

import (
	"bytes"

	v "github.com/pokt-network/pocket-core/verifrt"
)

//verif:config VerifC16prefix real=(*github.com/pokt-network/pocket-core/codec.ProtoCodec).UnmarshalBinaryLengthPrefixed;(*github.com/pokt-network/pocket-core/codec.ProtoCodec).UnmarshalBinaryBare

// c16rec records the payload handed to Unmarshal.
type c16rec struct {
	ProtoMarshaler
	got []byte
}

func (r *c16rec) Unmarshal(bz []byte) error {
	r.got = append([]byte{}, bz...)
	return nil
}

// c16decode runs the real length-prefixed decoder on bz.
func c16decode(bz []byte) ([]byte, bool) {
	pc := &ProtoCodec{}
	r := &c16rec{}
	if err := pc.UnmarshalBinaryLengthPrefixed(bz, r); err != nil {
		return nil, false
	}
	return r.got, true
}

// VerifC16prefix: replay protection is keyed on the raw transaction bytes, so two DIFFERENT byte
// strings must never decode to the SAME payload. Two arbitrary buffers (1..3 prefix bytes + a
// 2-byte payload each) through the real ProtoCodec.UnmarshalBinaryLengthPrefixed / binary.Uvarint.
func VerifC16prefix() {
	mk := func() []byte {
		n := 1 + v.Choice(3)
		return append(v.Bytes(n), v.Bytes(2)...)
	}
	b1, b2 := mk(), mk()
	p1, ok1 := c16decode(b1)
	p2, ok2 := c16decode(b2)
	if !ok1 || !ok2 {
		return
	}
	v.Reach("both-decode")
	v.AssertK(v.Implies(bytes.Equal(p1, p2), bytes.Equal(b1, b2)), "same-payload-only-from-same-bytes",
		v.Known("C16-K1", len(b1) != len(b2)))
	v.Observe("p1", p1)
	v.Observe("p2", p2)
}
