//verif:dir x/nodes/keeper
package keeper

import (
	"math/big"

	v "github.com/pokt-network/pocket-core/verifrt"
)

// VerifC19: inductive step — from an arbitrary consistent state (two node records of arbitrary
// status/jail/stake/output/chains, pool = sum of staked and unstaking tokens), every operation of
// the module keeps the pool equal to that sum, and total supply equal to the sum of all balances.
func VerifC19() {
	w := c19world()
	w.checkPool("pre-pool-invariant")
	c19step(w)
	w.checkPool("pool-equals-staked-tokens")
	total := new(big.Int).Add(w.pool(), w.bal(w.out))
	for _, a := range w.addrs {
		total = new(big.Int).Add(total, w.bal(a))
	}
	total = new(big.Int).Add(total, w.bal(w.k.getFeePool(w.ctx).GetAddress()))
	total = new(big.Int).Add(total, w.bal(w.ak.GetModuleAddress("dao")))
	v.Assert(w.k.TotalTokens(w.ctx).BigInt().Cmp(total) == 0, "supply-equals-sum-of-balances")
}
