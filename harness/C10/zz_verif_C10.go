//verif:dir store/rootmulti/heightcache
package heightcache

import (
	"bytes"

	v "github.com/pokt-network/pocket-core/verifrt"
	"github.com/pokt-network/pocket-core/verifrt/modelkv"
)

func c10bound() []byte {
	if v.Choice(2) == 0 {
		return nil
	}
	return v.Bytes(1)
}

// c10ops applies n arbitrary Set/Remove operations to the cache and, identically, to the model
// of the tree (the tree itself is covered by C03; what a read of the tree returns is its contents).
func c10ops(m *MemoryCache, tree *modelkv.Store, n int) {
	for i := 0; i < n; i++ {
		key := v.Bytes(1)
		if v.Choice(2) == 0 {
			val := v.Bytes(1)
			m.Set(key, val)
			tree.SetRaw(key, val)
		} else {
			_ = m.Remove(key)
			tree.DeleteRaw(key)
		}
	}
}

// VerifC10: reads that the IAVL store serves from the height cache (a past, still cached height)
// return exactly what the tree at that height returns: Get (nil for an absent key), Iterator and
// ReverseIterator over [start,end).
func VerifC10() {
	n1, n2 := 2, 1
	if v.Tier() > 0 {
		n1, n2 = 3, 2
	}
	m := NewMemoryCache(2)
	_ = m.InitializeStoreCache(0)
	tree := modelkv.New()
	c10ops(m, tree, n1)
	m.Commit(1)
	snap := modelkv.New()
	for _, kv := range tree.Snapshot() {
		snap.SetRaw(kv.K, kv.V)
	}
	c10ops(m, tree, n2)
	m.Commit(2)
	// height 1 is a past height within the cache window: the store answers from the cache
	v.Assert(m.isHeightSafeToRead(1), "height-1-cached")
	switch v.Choice(3) {
	case 0:
		key := v.Bytes(1)
		got, err := m.Get(1, key)
		want := snap.GetRaw(key)
		v.Assert(err == nil, "get-served")
		v.AssertK(v.And((got == nil) == (want == nil), bytes.Equal(got, want)), "get-equals-tree",
			v.Known("C10-K1", v.And(want == nil, v.And(got != nil, len(got) == 0))))
	case 1, 2:
		rev := v.Choice(2) == 1
		start, end := c10bound(), c10bound()
		var it interface {
			Valid() bool
			Next()
			Key() []byte
			Value() []byte
		}
		var err error
		if rev {
			it, err = m.ReverseIterator(1, start, end)
		} else {
			it, err = m.Iterator(1, start, end)
		}
		v.Assert(err == nil, "iterator-served")
		want := snap.Range(start, end, rev)
		n := 0
		for ; it.Valid() && n < 8; it.Next() {
			v.Assert(n < len(want), "iter-no-extra")
			if n < len(want) {
				v.Assert(v.And(bytes.Equal(it.Key(), want[n].K), bytes.Equal(it.Value(), want[n].V)), "iter-element")
			}
			n++
		}
		v.Assert(n == len(want), "iter-count")
	}
}

// VerifC10evict: more commits than the cache holds (capacity 2, four commits), so every cache slot
// is recycled once; one arbitrary Set/Remove before each of the first three commits. Reads at the
// cached past height 3 (served from a recycled slot) must equal the tree's state at height 3.
func VerifC10evict() {
	m := NewMemoryCache(2)
	_ = m.InitializeStoreCache(0)
	tree := modelkv.New()
	var snap3 *modelkv.Store
	for h := int64(1); h <= 4; h++ {
		if h <= 3 {
			c10ops(m, tree, 1)
		}
		m.Commit(h)
		if h == 3 {
			snap3 = modelkv.New()
			for _, kv := range tree.Snapshot() {
				snap3.SetRaw(kv.K, kv.V)
			}
		}
	}
	v.Assert(m.isHeightSafeToRead(3), "height-3-cached")
	if v.Choice(2) == 0 {
		key := v.Bytes(1)
		got, err := m.Get(3, key)
		want := snap3.GetRaw(key)
		v.Assert(err == nil, "evict-get-served")
		v.Assert(v.And((got == nil) == (want == nil), bytes.Equal(got, want)), "evict-get-equals-tree")
	} else {
		it, err := m.Iterator(3, nil, nil)
		v.Assert(err == nil, "evict-iterator-served")
		want := snap3.Range(nil, nil, false)
		n := 0
		for ; it.Valid() && n < 8; it.Next() {
			v.Assert(n < len(want), "evict-iter-no-extra")
			if n < len(want) {
				v.Assert(v.And(bytes.Equal(it.Key(), want[n].K), bytes.Equal(it.Value(), want[n].V)), "evict-iter-element")
			}
			n++
		}
		v.Assert(n == len(want), "evict-iter-count")
	}
}

// VerifC10warm: a node restarted on a non-empty database. LoadStore hands the cache the tree's
// whole contents (Initialize) at the loaded version V; after two more blocks of arbitrary writes a
// read at the past height V+1 served from the cache returns exactly what the tree holds there —
// including the keys written before the restart.
func VerifC10warm() {
	tree := modelkv.New()
	for i := 0; i < 2; i++ {
		tree.SetRaw(v.Bytes(1), v.Bytes(1))
	}
	dataset := map[string]string{}
	for _, kv := range tree.Snapshot() {
		dataset[string(kv.K)] = string(kv.V)
	}
	m := NewMemoryCache(2)
	m.Initialize(dataset, 5) // as iavl.LoadStore does with the loaded tree at version 5
	c10ops(m, tree, 1)
	m.Commit(6)
	snap := modelkv.New()
	for _, kv := range tree.Snapshot() {
		snap.SetRaw(kv.K, kv.V)
	}
	c10ops(m, tree, 1)
	m.Commit(7)
	v.Assert(m.isHeightSafeToRead(6), "height-after-restart-is-cached")
	key := v.Bytes(1)
	got, err := m.Get(6, key)
	want := snap.GetRaw(key)
	v.Assert(err == nil, "warm-get-served")
	v.Assert(v.And((got == nil) == (want == nil), bytes.Equal(got, want)), "warm-get-equals-tree")
}
