//verif:dir x/nodes/keeper
package keeper

import (
	"bytes"
	"math/big"

	sdk "github.com/pokt-network/pocket-core/types"
	"github.com/pokt-network/pocket-core/x/nodes/types"
	v "github.com/pokt-network/pocket-core/verifrt"
)

// VerifC22: one end-of-block validator-set update from an arbitrary state — N nodes with arbitrary
// stake / jailed / status, an arbitrary "previously reported" set with arbitrary powers, arbitrary
// MaxValidators. Applying the returned updates to the previous set must give exactly the top
// MaxValidators staked, unjailed, non-zero-power nodes at their current power (leavers reported
// with power zero, validator splitting being active), and the stored previous-power index must
// then describe that set.
func VerifC22() {
	w := nwNew(false)
	n := 2 // (three nodes did not finish within 50 minutes; outside the claim. The thorough tier still widens the records: output address set or not)
	p := w.params
	p.MaxValidators = v.Int64In(1, 3)
	w.setParams(p)
	type rec struct {
		val   types.Validator
		power int64
		prev  int64 // previously reported power, 0 = not in the previous set
	}
	var recs []rec
	for i := 0; i < n; i++ {
		val := types.Validator{Address: w.addrs[i], PublicKey: w.pks[i], ServiceURL: "https://n:443", Chains: []string{nwChains[0]}}
		val.Status = []sdk.StakeStatus{sdk.Staked, sdk.Unstaking}[v.Choice(2)]
		val.Jailed = v.Choice(2) == 1
		val.StakedTokens = sdk.NewIntFromBigInt(v.BigIn("0", nwMaxTokens))
		if val.Status == sdk.Unstaking {
			val.UnstakingCompletionTime = w.ctx.Time.Add(1000)
		}
		w.install(val)
		r := rec{val: val, power: val.ConsensusPower()}
		if v.Choice(2) == 1 {
			r.prev = v.Int64In(1, 1000000000)
			w.k.SetPrevStateValPower(w.ctx, val.Address, r.prev)
		}
		recs = append(recs, r)
	}
	updates := w.k.UpdateTendermintValidators(w.ctx)

	// expected new set: eligible nodes ordered by (power desc, address asc — the index key is
	// power ‖ ^address, walked in reverse), cut at MaxValidators
	var elig []rec
	for _, r := range recs {
		if r.val.IsStaked() && !r.val.Jailed && r.power > 0 {
			elig = append(elig, r)
		}
	}
	for a := 1; a < len(elig); a++ {
		for b := a; b > 0; b-- {
			x, y := elig[b-1], elig[b]
			if x.power < y.power || (x.power == y.power && bytes.Compare(x.val.Address, y.val.Address) > 0) {
				elig[b-1], elig[b] = y, x
			} else {
				break
			}
		}
	}
	max := int(v.Concretize(p.MaxValidators, 1, 3))
	if len(elig) > max {
		elig = elig[:max]
	}
	// apply the updates to the previous set
	cur := map[string]int64{}
	for _, r := range recs {
		if r.prev != 0 {
			cur[string(r.val.PublicKey.RawBytes())] = r.prev
		}
	}
	seen := map[string]bool{}
	for _, u := range updates {
		k := string(u.PubKey.Data)
		v.Assert(!seen[k], "one-update-per-node")
		seen[k] = true
		if u.Power == 0 {
			delete(cur, k)
		} else {
			cur[k] = u.Power
		}
	}
	v.Assert(len(cur) == len(elig), "set-size")
	for _, r := range elig {
		got, ok := cur[string(r.val.PublicKey.RawBytes())]
		v.Assert(ok, "eligible-node-in-set")
		v.Assert(got == r.power, "current-power-reported")
	}
	// stored previous-power index now equals the new set
	for _, r := range recs {
		in := false
		for _, e := range elig {
			if e.val.Address.Equals(r.val.Address) {
				in = true
			}
		}
		st := w.store()
		v.Assert(nwHas(st, types.KeyForValidatorPrevStateStateByPower(r.val.Address)) == in, "prev-index-equals-new-set")
	}
	_ = big.NewInt
}
