//verif:dir x/nodes/keeper
package keeper

import (
	"math/big"

	sdk "github.com/pokt-network/pocket-core/types"
	"github.com/pokt-network/pocket-core/x/nodes/types"
	v "github.com/pokt-network/pocket-core/verifrt"
)

const c26max = "1000000000000000000000000000000" // 10^30

func c26big(x sdk.BigInt) *big.Int { return x.BigInt() }

// VerifC26split: splitRewards — node + feeCollector = reward, both >= 0, for every reward and
// every valid (DAO, proposer) allocation (each in [0,100], sum <= 100).
func VerifC26split() {
	dao, prop := v.Int64In(0, 100), v.Int64In(0, 100)
	v.Assume(dao+prop <= 100)
	v.Param(string(types.KeyDAOAllocation), dao)
	v.Param(string(types.KeyProposerAllocation), prop)
	k, ctx := verifEnvC26()
	reward := sdk.NewIntFromBigInt(v.BigIn("0", c26max))
	node, fees := k.splitRewards(ctx, reward)
	v.Assert(node.Add(fees).Equal(reward), "split-conserves")
	v.Assert(!node.IsNegative(), "node-nonneg")
	v.Assert(!fees.IsNegative(), "fees-nonneg")
	// fees = floor(reward*(dao+prop)/100)
	want := new(big.Int).Quo(new(big.Int).Mul(c26big(reward), big.NewInt(0).Add(big.NewInt(0).SetInt64(dao), big.NewInt(0).SetInt64(prop))), big.NewInt(100))
	v.Assert(c26big(fees).Cmp(want) == 0, "fees-exact")
	v.Observe("node", c26big(node))
	v.Observe("fees", c26big(fees))
}

// VerifC26fees: splitFeesCollected — daoCut + proposerCut = fees, both >= 0 (allocations not both 0).
func VerifC26fees() {
	dao, prop := v.Int64In(0, 100), v.Int64In(0, 100)
	v.Assume(dao+prop <= 100)
	v.Assume(dao+prop > 0)
	v.Param(string(types.KeyDAOAllocation), dao)
	v.Param(string(types.KeyProposerAllocation), prop)
	k, ctx := verifEnvC26()
	fees := sdk.NewIntFromBigInt(v.BigIn("0", c26max))
	d, p := k.splitFeesCollected(ctx, fees)
	v.Assert(d.Add(p).Equal(fees), "fees-conserved")
	v.Assert(!d.IsNegative(), "dao-nonneg")
	v.Assert(!p.IsNegative(), "proposer-nonneg")
	v.Observe("dao", c26big(d))
	v.Observe("prop", c26big(p))
}

// VerifC26feesFixed: the same conservation statement for a list of concrete allocation pairs
// (default 10/1 among them) and an arbitrary fee amount: with constant allocations every
// division in the split is by a constant, so the solver decides variants of the split that the
// fully symbolic harness can only answer "unknown" to.
func VerifC26feesFixed() {
	pairs := [][2]int64{{10, 1}, {1, 10}, {50, 50}, {100, 0}, {0, 100}, {33, 33}, {7, 3}}
	pr := pairs[v.Choice(len(pairs))]
	v.Param(string(types.KeyDAOAllocation), pr[0])
	v.Param(string(types.KeyProposerAllocation), pr[1])
	k, ctx := verifEnvC26()
	fees := sdk.NewIntFromBigInt(v.BigIn("0", c26max))
	d, p := k.splitFeesCollected(ctx, fees)
	v.Assert(d.Add(p).Equal(fees), "fees-conserved-for-fixed-allocations")
	v.Assert(!d.IsNegative() && !p.IsNegative(), "cuts-nonneg-for-fixed-allocations")
}

var c26addrs = []sdk.Address{
	sdk.Address([]byte("delegator-address-01")),
	sdk.Address([]byte("delegator-address-02")),
	sdk.Address([]byte("delegator-address-03")),
}
var c26primary = sdk.Address([]byte("output-address-00000"))

// VerifC26delegators: SplitNodeRewards — each delegator receives floor(reward*share/100), the
// primary recipient the remainder, the shares sum to the reward; nothing is paid when the
// delegator map is invalid or the reward is not positive.
func VerifC26delegators() {
	n := v.Choice(3) // 0..2 delegators (3 in thorough)
	if v.Tier() > 0 {
		n = v.Choice(4)
	}
	del := map[string]uint32{}
	var shares []int64
	total := int64(0)
	for k := 0; k < n; k++ {
		s := v.Int64In(0, 100)
		shares = append(shares, s)
		total += s
		del[c26addrs[k].String()] = uint32(s)
	}
	reward := sdk.NewIntFromBigInt(v.BigIn("0", c26max))
	paid := map[string]*big.Int{}
	sum := new(big.Int)
	calls := 0
	err := SplitNodeRewards(nopLogger{}, reward, c26primary, del, func(addr sdk.Address, coins sdk.BigInt) {
		calls++
		v.Assert(coins.IsPositive(), "every-payment-positive")
		prev, ok := paid[addr.String()]
		v.Assert(!ok, "one-payment-per-recipient")
		_ = prev
		paid[addr.String()] = c26big(coins)
		sum = new(big.Int).Add(sum, c26big(coins))
	})
	valid := true
	for _, s := range shares {
		valid = v.And(valid, s > 0)
	}
	valid = v.And(valid, total <= 100)
	if err != nil {
		v.Assert(calls == 0, "error-pays-nothing")
		v.Assert(v.Or(!reward.IsPositive(), !valid), "error-only-when-invalid")
		return
	}
	v.Assert(valid, "success-only-when-valid")
	v.Assert(sum.Cmp(c26big(reward)) == 0, "shares-sum-to-reward")
	rem := new(big.Int).Set(c26big(reward))
	for k := 0; k < n; k++ {
		want := new(big.Int).Quo(new(big.Int).Mul(c26big(reward), big.NewInt(0).SetInt64(shares[k])), big.NewInt(100))
		got, ok := paid[c26addrs[k].String()]
		if !ok {
			got = new(big.Int)
		}
		v.Assert(got.Cmp(want) == 0, "delegator-share-exact")
		rem = new(big.Int).Sub(rem, want)
	}
	gotP, ok := paid[c26primary.String()]
	if !ok {
		gotP = new(big.Int)
	}
	v.Assert(gotP.Cmp(rem) == 0, "primary-gets-remainder")
}

type nopLogger struct{}

func (nopLogger) Debug(msg string, keyvals ...interface{}) {}
func (nopLogger) Info(msg string, keyvals ...interface{})  {}
func (nopLogger) Error(msg string, keyvals ...interface{}) {}
func (l nopLogger) With(keyvals ...interface{}) tmlog { return l }
