//verif:dir x/nodes/keeper
package keeper

import (
	"math/big"

	sdk "github.com/pokt-network/pocket-core/types"
	"github.com/pokt-network/pocket-core/x/nodes/types"
	v "github.com/pokt-network/pocket-core/verifrt"
)

// VerifC26mint: RewardForRelaysPerChain on the real keeper and bank — the coins minted in total
// equal the computed reward (multiplier x relays; stake-weighted scaling off, see C27), the fee
// collector receives exactly the DAO+proposer part, the operator its claim/proof fee refund, the
// output address and delegators the rest; nothing else changes and the staking pool is untouched.
func VerifC26mint() {
	w := nwNew(false)
	p := w.params
	p.DAOAllocation, p.ProposerAllocation = v.Int64In(0, 100), v.Int64In(0, 100)
	v.Assume(p.DAOAllocation+p.ProposerAllocation <= 100)
	p.RelaysToTokensMultiplier = 1000
	w.setParams(p)
	val := types.Validator{Address: w.addrs[0], PublicKey: w.pks[0], ServiceURL: "https://n0:443", Chains: []string{nwChains[0]},
		Status: sdk.Staked, StakedTokens: sdk.NewInt(20000000000), OutputAddress: w.out}
	del := sdk.Address([]byte("delegator-address-01"))
	share := v.Int64In(1, 100)
	if v.Choice(2) == 1 {
		val.RewardDelegators = map[string]uint32{del.String(): uint32(share)}
	}
	w.install(val)
	relays := v.BigIn("0", "100000000")
	preSupply, prePool := w.k.TotalTokens(w.ctx).BigInt(), w.pool()
	fee := w.bal(w.k.getFeePool(w.ctx).GetAddress())
	toNode := w.k.RewardForRelaysPerChain(w.ctx, nwChains[0], sdk.NewIntFromBigInt(relays), w.addrs[0])
	_ = toNode
	reward := new(big.Int).Mul(relays, big.NewInt(1000))
	minted := new(big.Int).Sub(w.k.TotalTokens(w.ctx).BigInt(), preSupply)
	v.Assert(minted.Cmp(reward) == 0, "minted-equals-computed-reward")
	wantFees := new(big.Int).Quo(new(big.Int).Mul(reward, big.NewInt(0).Add(big.NewInt(0).SetInt64(p.DAOAllocation), big.NewInt(0).SetInt64(p.ProposerAllocation))), big.NewInt(100))
	gotFees := new(big.Int).Sub(w.bal(w.k.getFeePool(w.ctx).GetAddress()), fee)
	v.Assert(gotFees.Cmp(wantFees) == 0, "fee-collector-gets-dao-and-proposer-part")
	got := new(big.Int).Add(w.bal(w.addrs[0]), new(big.Int).Add(w.bal(w.out), w.bal(del)))
	v.Assert(got.Cmp(new(big.Int).Sub(reward, wantFees)) == 0, "servicer-side-gets-the-rest")
	v.Assert(w.pool().Cmp(prePool) == 0, "staking-pool-untouched-by-rewards")
	w.checkPool("pool-invariant-after-reward")
	v.Observe("minted", minted)
}
