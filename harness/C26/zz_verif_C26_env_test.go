//verif:dir x/nodes/keeper
//go:build verifnative

package keeper

import (
	"testing"

	sdk "github.com/pokt-network/pocket-core/types"
	v "github.com/pokt-network/pocket-core/verifrt"
	"github.com/tendermint/tendermint/libs/log"
)

type tmlog = log.Logger

// verifEnvC26 (native): the repository's own test fixture, with the harness parameters written
// through the real Subspace.
func verifEnvC26() (Keeper, sdk.Ctx) {
	ctx, _, k := createTestInput(v.T().(*testing.T), true)
	for _, p := range v.PendingParams() {
		k.Paramstore.Set(ctx, []byte(p.Key), p.Val)
	}
	return k, ctx
}
