//verif:dir x/nodes/keeper
//go:build !verifnative

package keeper

import (
	sdk "github.com/pokt-network/pocket-core/types"
	"github.com/tendermint/tendermint/libs/log"
)

type tmlog = log.Logger

// verifEnvC26 (engine): the keeper's parameter reads are served by the engine's parameter table,
// nothing else of the keeper is touched by the kernels under test.
func verifEnvC26() (Keeper, sdk.Ctx) { return Keeper{}, nil }
