//verif:dir x/apps/keeper
package keeper

import (
	"math/big"
	"time"

	sdk "github.com/pokt-network/pocket-core/types"
	"github.com/pokt-network/pocket-core/x/apps/types"
	v "github.com/pokt-network/pocket-core/verifrt"
)

// VerifC20: inductive step — from an arbitrary consistent state (record 0 arbitrary, record 1 a
// staked or unstaking application, pool = sum of staked and unstaking tokens) every operation of the
// application module keeps the pool equal to that sum and the supply equal to the sum of balances.
func VerifC20() {
	w := awNew()
	w.install(w.arbitraryApp(0))
	second := types.Application{Address: w.addrs[1], PublicKey: w.pks[1], Chains: []string{"0001"}, Status: sdk.Staked,
		StakedTokens: sdk.NewInt(20000000000), MaxRelays: sdk.NewInt(100)}
	if v.Choice(2) == 1 { // the second application may be waiting to unstake
		second.Status = sdk.Unstaking
		second.UnstakingCompletionTime = time.Unix(v.Int64In(1000000, 2000000000), 0).UTC()
	}
	w.install(second)
	w.fund(w.addrs[0])
	w.fund(w.addrs[2])
	w.credit(w.addrs[1], big.NewInt(5000000))
	w.checkPool("pre-pool-invariant")
	app, found := w.k.GetApplication(w.ctx, w.addrs[0])
	switch v.Choice(8) {
	case 0: // stake: new application on address 2, or (edit-/re-)stake of record 0, as handleStake does
		j := []int{0, 2}[v.Choice(2)]
		na := types.Application{Address: w.addrs[j], PublicKey: w.pks[j], Chains: []string{"0021"}, StakedTokens: sdk.ZeroInt()}
		amount := sdk.NewIntFromBigInt(v.BigIn("0", awMaxTokens))
		if err := w.k.ValidateApplicationStaking(w.ctx, na, amount); err == nil {
			v.Reach("stake-accepted")
			_ = w.k.StakeApplication(w.ctx, na, amount)
		}
	case 1:
		if found && w.k.ValidateApplicationBeginUnstaking(w.ctx, app) == nil {
			v.Reach("begin-unstake")
			w.k.BeginUnstakingApplication(w.ctx, app)
		}
	case 2:
		if found && w.k.ValidateApplicationFinishUnstaking(w.ctx, app) == nil {
			v.Reach("finish-unstake")
			w.k.FinishUnstakingApplication(w.ctx, app)
			w.k.DeleteApplication(w.ctx, app.Address)
		}
	case 3:
		if found && !app.IsUnstaked() {
			_ = w.k.ForceApplicationUnstake(w.ctx, app)
		}
	case 4:
		w.k.JailApplication(w.ctx, w.addrs[0])
	case 5:
		w.k.UnjailApplication(w.ctx, w.addrs[0])
	case 6:
		w.k.unstakeAllMatureApplications(w.ctx)
	case 7: // transfer record 0 to a fresh key (address 2) or onto the second application's key, as handleStake does for a transfer message
		msg := types.MsgStake{PubKey: w.pks[2-v.Choice(2)], Chains: nil, Value: sdk.ZeroInt()}
		if cur, err := w.k.ValidateApplicationTransfer(w.ctx, w.pks[0], msg); err == nil {
			v.Reach("transfer-accepted")
			w.k.TransferApplication(w.ctx, cur, msg.PubKey)
		}
	}
	w.checkPool("pool-equals-staked-tokens")
	total := w.pool()
	for _, a := range w.addrs {
		total = new(big.Int).Add(total, w.bal(a))
	}
	total = new(big.Int).Add(total, w.bal(w.k.getFeePool(w.ctx).GetAddress()))
	v.Assert(w.k.TotalTokens(w.ctx).BigInt().Cmp(total) == 0, "supply-equals-sum-of-balances")
}
