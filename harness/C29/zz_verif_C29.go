//verif:dir x/pocketcore/types
package types

import (
	v "github.com/pokt-network/pocket-core/verifrt"
)

//verif:config VerifC29 idealhash=yes unwind=200

// VerifC29: every leaf of every generated tree verifies against the generated root.
func VerifC29() {
	var n int
	sorted := false
	if v.Tier() == 0 {
		n = []int{3, 5, 8}[v.Choice(3)] // 3: every input order; 5 (padding to 8) and 8 (full): sorted input
	} else {
		n = []int{2, 3, 4, 5, 6, 7, 8, 9, 16}[v.Choice(9)]
	}
	sorted = n > 4
	height := v.I64()
	ps := vmerkleLeaves(n, sorted)
	root, _ := GenerateRoot(height, vcopy(ps))
	idx := v.Choice(n)
	mp, leaf := GenerateProofs(height, vcopy(ps), idx)
	valid, replay := mp.Validate(height, root, leaf, vlevels(n))
	v.Assert(valid, "valid-proof-verifies")
	v.Assert(!replay, "valid-proof-not-replay")
	v.Assert(root.Range.Lower == 0, "root-starts-at-zero")
}
