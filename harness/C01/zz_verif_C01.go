//verif:dir store/cachekv
package cachekv

import (
	"bytes"

	"github.com/pokt-network/pocket-core/store/types"
	v "github.com/pokt-network/pocket-core/verifrt"
	"github.com/pokt-network/pocket-core/verifrt/modelkv"
)

func c01bound() []byte {
	if v.Choice(2) == 0 {
		return nil
	}
	return v.Bytes(1)
}

func c01sameBytes(a, b []byte) bool {
	return v.And((a == nil) == (b == nil), bytes.Equal(a, b))
}

// c01scan compares an iterator of the store under test with the model's range, element by element.
func c01scan(st types.KVStore, model *modelkv.Store, start, end []byte, rev bool, label string) {
	var it types.Iterator
	if rev {
		it, _ = st.ReverseIterator(start, end)
	} else {
		it, _ = st.Iterator(start, end)
	}
	want := model.Range(start, end, rev)
	n := 0
	for ; it.Valid() && n < 8; it.Next() {
		v.Assert(n < len(want), label+"-no-extra")
		if n < len(want) {
			v.Assert(v.And(bytes.Equal(it.Key(), want[n].K), bytes.Equal(it.Value(), want[n].V)), label+"-element")
		}
		n++
	}
	v.Assert(n == len(want), label+"-count")
	it.Close()
}

func c01equalStores(a, b *modelkv.Store, label string) {
	v.Assert(len(a.Items) == len(b.Items), label+"-size")
	if len(a.Items) == len(b.Items) {
		for i := range a.Items {
			v.Assert(v.And(bytes.Equal(a.Items[i].K, b.Items[i].K), bytes.Equal(a.Items[i].V, b.Items[i].V)), label+"-item")
		}
	}
}

// c01run drives a cache-wrapped store st (whose writes end up in `parent`) through k arbitrary
// steps, mirroring every step on the overlay model.
func c01run(st *Store, parent *modelkv.Store, k int) {
	// model = what a reader of the cache must see; base = what the parent must hold
	model, base := modelkv.New(), modelkv.New()
	for _, kv := range parent.Snapshot() {
		model.SetRaw(kv.K, kv.V)
		base.SetRaw(kv.K, kv.V)
	}
	for step := 0; step < k; step++ {
		switch v.Choice(6) {
		case 0: // get / has
			key := v.Bytes(1)
			got, _ := st.Get(key)
			v.Assert(c01sameBytes(got, model.GetRaw(key)), "get")
			has, _ := st.Has(key)
			v.Assert(has == (model.GetRaw(key) != nil), "has")
		case 1: // set
			key, val := v.Bytes(1), v.Bytes(1)
			_ = st.Set(key, val)
			model.SetRaw(key, val)
		case 2: // delete
			key := v.Bytes(1)
			_ = st.Delete(key)
			model.DeleteRaw(key)
		case 3: // iterate
			c01scan(st, model, c01bound(), c01bound(), false, "iter")
		case 4: // reverse iterate
			c01scan(st, model, c01bound(), c01bound(), true, "riter")
		case 5: // write through: the parent now holds exactly the model
			st.Write()
			c01equalStores(parent, model, "write")
			base = modelkv.New()
			for _, kv := range model.Snapshot() {
				base.SetRaw(kv.K, kv.V)
			}
		}
		// nothing reaches the parent before Write
		c01equalStores(parent, base, "parent-untouched")
	}
	// final scans: one over an arbitrary range (a range bound equal to a touched key matters), one
	// full scan in the other direction
	rev := v.Choice(2) == 1
	c01scan(st, model, c01bound(), c01bound(), rev, "final")
	if v.Tier() > 0 {
		c01scan(st, model, nil, nil, !rev, "final-other-direction")
	}
}

// VerifC01: cachekv.Store over a model parent is an exact overlay.
func VerifC01() {
	nparent, k := 1, 2
	if v.Tier() > 0 {
		nparent, k = 2, 2 // (three operations over two parent entries did not finish within the thorough budget)
	}
	parent := modelkv.New()
	for i := 0; i < nparent; i++ {
		if v.Choice(2) == 1 {
			parent.SetRaw(v.Bytes(1), v.Bytes(1))
		}
	}
	c01run(NewStore(parent), parent, k)
}

//verif:config VerifC01nested tier=thorough

// VerifC01nested: a cache over a cache — the inner overlay is exact over the outer one, inner
// writes reach the outer cache only on the inner Write and the parent only on the outer Write.
func VerifC01nested() {
	parent := modelkv.New()
	if v.Choice(2) == 1 {
		parent.SetRaw(v.Bytes(1), v.Bytes(1))
	}
	before := modelkv.New()
	for _, kv := range parent.Snapshot() {
		before.SetRaw(kv.K, kv.V)
	}
	outer := NewStore(parent)
	// one arbitrary pending operation in the outer cache
	okey, oval := v.Bytes(1), v.Bytes(1)
	view := modelkv.New()
	for _, kv := range parent.Snapshot() {
		view.SetRaw(kv.K, kv.V)
	}
	if v.Choice(2) == 0 {
		_ = outer.Set(okey, oval)
		view.SetRaw(okey, oval)
	} else {
		_ = outer.Delete(okey)
		view.DeleteRaw(okey)
	}
	inner := NewStore(outer)
	model := modelkv.New()
	for _, kv := range view.Snapshot() {
		model.SetRaw(kv.K, kv.V)
	}
	for step := 0; step < 2; step++ {
		key := v.Bytes(1)
		switch v.Choice(3) {
		case 0:
			val := v.Bytes(1)
			_ = inner.Set(key, val)
			model.SetRaw(key, val)
		case 1:
			_ = inner.Delete(key)
			model.DeleteRaw(key)
		case 2:
			got, _ := inner.Get(key)
			v.Assert(c01sameBytes(got, model.GetRaw(key)), "nested-get")
		}
	}
	c01scan(inner, model, c01bound(), c01bound(), v.Choice(2) == 1, "nested-iter")
	c01scan(outer, view, nil, nil, false, "outer-unchanged-before-inner-write")
	inner.Write()
	c01scan(outer, model, nil, nil, false, "outer-after-inner-write")
	c01equalStores(parent, before, "parent-untouched-before-outer-write")
	outer.Write()
	c01equalStores(parent, model, "parent-after-outer-write")
}


// VerifC01redirty: the sorted-cache maintenance path — a key is written, moved into the sorted
// cache by an iteration, written or deleted again (any key, possibly the same), then iterated with
// arbitrary bounds in either direction, optionally after a Write. All keys, values and bounds are
// symbolic; only the shape of the history is fixed.
func VerifC01redirty() {
	parent := modelkv.New()
	if v.Choice(2) == 1 {
		parent.SetRaw(v.Bytes(1), v.Bytes(1))
	}
	st := NewStore(parent)
	model := modelkv.New()
	for _, kv := range parent.Snapshot() {
		model.SetRaw(kv.K, kv.V)
	}
	k1, v1 := v.Bytes(1), v.Bytes(1)
	_ = st.Set(k1, v1)
	model.SetRaw(k1, v1)
	c01scan(st, model, c01bound(), c01bound(), v.Choice(2) == 1, "first-iter")
	k2 := v.Bytes(1)
	if v.Choice(2) == 0 {
		v2 := v.Bytes(1)
		_ = st.Set(k2, v2)
		model.SetRaw(k2, v2)
	} else {
		_ = st.Delete(k2)
		model.DeleteRaw(k2)
	}
	c01scan(st, model, c01bound(), c01bound(), v.Choice(2) == 1, "second-iter")
	st.Write()
	c01equalStores(parent, model, "write")
	c01scan(st, model, nil, nil, false, "after-write")
}
