//verif:dir x/nodes
package nodes

import (
	"math/big"

	sdk "github.com/pokt-network/pocket-core/types"
	"github.com/pokt-network/pocket-core/x/nodes/keeper"
	"github.com/pokt-network/pocket-core/x/nodes/types"
	v "github.com/pokt-network/pocket-core/verifrt"
)

// VerifC18handler: the REAL message handler (handleMsgSend) over the keeper world: a send of an
// arbitrary positive amount between two funded accounts or to a new one succeeds exactly when the
// sender's balance covers it — the whole balance included — and then moves exactly the amount;
// otherwise nothing changes; the supply never changes.
func VerifC18handler() {
	w := keeper.NwWorldForHandlers()
	a, b, fresh := w.VAddr(0), w.VAddr(1), w.VAddr(2)
	balA := w.VFund(a)
	w.VFund(b)
	to := []sdk.Address{b, fresh}[v.Choice(2)]
	amt := v.BigIn("1", "100000000000000000000")
	preTo, preSupply := w.VBal(to), w.VSupply()
	msg := types.MsgSend{FromAddress: a, ToAddress: to, Amount: sdk.NewIntFromBigInt(amt)}
	res := handleMsgSend(w.VCtx(), msg, w.VK())
	covered := balA.Cmp(amt) >= 0
	v.Assert(res.IsOK() == covered, "send-succeeds-iff-the-balance-covers-it")
	wantA, wantTo := balA, preTo
	if covered {
		wantA, wantTo = new(big.Int).Sub(balA, amt), new(big.Int).Add(preTo, amt)
	}
	v.Assert(w.VBal(a).Cmp(wantA) == 0 && w.VBal(to).Cmp(wantTo) == 0, "handler-moves-exactly-the-amount-or-nothing")
	v.Assert(w.VSupply().Cmp(preSupply) == 0, "handler-leaves-the-supply-unchanged")
}
