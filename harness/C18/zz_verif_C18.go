//verif:dir x/nodes/keeper
package keeper

import (
	"math/big"

	sdk "github.com/pokt-network/pocket-core/types"
	"github.com/pokt-network/pocket-core/x/nodes/types"
	v "github.com/pokt-network/pocket-core/verifrt"
)

// VerifC18: a send (the keeper call handleMsgSend makes) moves exactly the amount from sender to
// recipient or changes nothing; self-sends, sends to a new account, the full balance and more than
// the balance included; no balance becomes negative and coin sets stay canonical.
func VerifC18() {
	w := nwNew(false)
	a, b, fresh := w.addrs[0], w.addrs[1], w.addrs[2]
	w.fund(a)
	w.fund(b)
	from := []sdk.Address{a, b, fresh}[v.Choice(3)]
	to := []sdk.Address{a, b, fresh}[v.Choice(3)]
	amt := v.BigIn("-3", nwMaxTokens+"0")
	pre := map[string]*big.Int{}
	for _, x := range w.addrs {
		pre[x.String()] = w.bal(x)
	}
	preSupply := w.k.TotalTokens(w.ctx).BigInt()
	msg := types.MsgSend{FromAddress: from, ToAddress: to, Amount: sdk.NewIntFromBigInt(amt)}
	if msg.ValidateBasic() != nil {
		v.Assert(amt.Sign() <= 0, "stateless-check-rejects-only-nonpositive")
		return // rejected before any handler runs: nothing to change
	}
	err := w.k.SendCoins(w.ctx, msg.FromAddress, msg.ToAddress, msg.Amount)
	covered := amt.Sign() > 0 && pre[from.String()].Cmp(amt) >= 0
	if covered {
		v.Assert(err == nil, "covered-send-succeeds")
	} else {
		v.Assert(err != nil, "uncovered-or-nonpositive-send-fails")
	}
	for _, x := range w.addrs {
		want := pre[x.String()]
		if err == nil {
			if x.Equals(from) {
				want = new(big.Int).Sub(want, amt)
			}
			if x.Equals(to) {
				want = new(big.Int).Add(want, amt)
			}
		}
		v.Assert(w.bal(x).Cmp(want) == 0, "exact-movement-or-nothing")
		v.Assert(w.bal(x).Sign() >= 0, "never-negative")
		v.Assert(w.ak.GetCoins(w.ctx, x).IsValid(), "canonical-coin-set")
	}
	v.Assert(w.k.TotalTokens(w.ctx).BigInt().Cmp(preSupply) == 0, "supply-unchanged")
	v.Observe("from", w.bal(from))
}
