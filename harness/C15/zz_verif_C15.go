//verif:dir x/auth
package auth

import (
	"math/big"

	sdk "github.com/pokt-network/pocket-core/types"
	"github.com/pokt-network/pocket-core/x/auth/types"
	v "github.com/pokt-network/pocket-core/verifrt"
)

//verif:config VerifC15 native=no

// VerifC15: the ante handler — a transaction that passes authentication moves exactly its declared
// fee (at least the required fee) from the authenticated signer to the fee collector and nothing
// else; a transaction rejected before or during authentication moves nothing.
func VerifC15() {
	w := authWorldNew()
	balA := v.BigIn("0", "1000000000")
	w.setAccount(0, balA, true)
	w.setAccount(1, big.NewInt(2000000000), true)
	msg := awMsg{signers: []sdk.Address{w.addrs[0]}}
	fee := v.BigIn("0", "1000000000")
	var coins sdk.Coins
	switch v.Choice(3) {
	case 0:
		coins = sdk.Coins{sdk.Coin{Denom: sdk.DefaultStakeDenom, Amount: sdk.NewIntFromBigInt(fee)}} // possibly a zero coin: invalid set
	case 1:
		coins = sdk.Coins{} // no fee at all
	case 2:
		coins = sdk.Coins{sdk.Coin{Denom: sdk.DefaultStakeDenom, Amount: sdk.NewIntFromBigInt(fee)}, sdk.Coin{Denom: "aaa", Amount: sdk.NewInt(5)}} // unsorted
	}
	ki := v.Choice(2) // key A or unrelated key B
	sig := types.StdSignature{PublicKey: w.keys[ki], Signature: v.Bytes(2)}
	tx := types.StdTx{Msg: msg, Fee: coins, Signature: sig, Memo: "m", Entropy: 7}
	collector := w.k.GetModuleAddress(types.FeeCollectorName)
	preA, preB, preC := w.bal(w.addrs[0]), w.bal(w.addrs[1]), w.bal(collector)
	_, _, signer, abort := NewAnteHandler(w.k)(w.ctx, tx, []byte("tx-bytes"), awIndexer{}, false)
	if abort {
		v.Assert(w.bal(w.addrs[0]).Cmp(preA) == 0 && w.bal(w.addrs[1]).Cmp(preB) == 0 && w.bal(collector).Cmp(preC) == 0, "rejected-transaction-moves-nothing")
		return
	}
	v.Reach("authenticated")
	v.Assert(fee.Cmp(big.NewInt(10000)) >= 0, "fee-at-least-the-required-fee")
	// the payer is the authenticated signer (before the non-custodial upgrade: the message's first
	// declared signer)
	payer := w.addrs[0]
	if w.modern {
		payer = sdk.Address(signer.Address())
	}
	wantA, wantB := preA, preB
	if payer.Equals(w.addrs[0]) {
		wantA = new(big.Int).Sub(preA, fee)
	} else {
		v.Assert(payer.Equals(w.addrs[1]), "payer-is-a-known-account")
		wantB = new(big.Int).Sub(preB, fee)
	}
	v.Assert(w.bal(w.addrs[0]).Cmp(wantA) == 0 && w.bal(w.addrs[1]).Cmp(wantB) == 0, "only-the-signer-is-debited-and-exactly-the-fee")
	v.Assert(w.bal(collector).Cmp(new(big.Int).Add(preC, fee)) == 0, "collector-credited-exactly-the-fee")
}
