//verif:dir store/rootmulti
package rootmulti

import (
	"bytes"

	v "github.com/pokt-network/pocket-core/verifrt"
	"github.com/pokt-network/pocket-core/verifrt/modelkv"
)

// VerifC07: block 1 is committed; while block 2 is committed the process dies after an ARBITRARY
// number of durable write operations — every boundary between the writes one commit performs
// (counted on an uninterrupted twin: the substores' batch writes, then the commit-info batch), and
// "no crash". The node is then reopened from what reached the disk. It must come up, at the last
// FULLY committed block (1, or 2 when every write landed), with that block's app hash and exactly
// that block's contents; re-executing block 2 from there gives the app hash an uninterrupted node
// computes, and the same contents.
func VerifC07() {
	disk := modelkv.NewUnorderedDB()
	ref := mwNewRef()
	// an uninterrupted twin, for the expected commit ids
	count := modelkv.NewCrashDB(modelkv.NewUnorderedDB(), -1) // (never crashes; counts the durable writes)
	twin := mwMustOpen(count)
	rs := mwMustOpen(disk)
	b1 := mwBlock(1)
	mwApply(rs, b1)
	mwApply(twin, b1)
	ref.apply(b1)
	id1 := rs.Commit()
	tid1 := twin.Commit()
	v.Assert(bytes.Equal(id1.Hash, tid1.Hash), "twin-agrees-on-block-1")
	ref1 := ref.clone()

	b2 := mwBlock(1)
	if v.Tier() > 0 { // thorough: two writes in the interrupted block, keys from a concrete set
		b2 = mwBlockFrom(2, [][]byte{{0x10}, {0x20}})
	}
	mwApply(twin, b2)
	ref.apply(b2)
	before := *count.Ops
	tid2 := twin.Commit()
	writes := *count.Ops - before // durable write operations one commit of block 2 performs
	v.Assert(writes >= 1, "commit-writes-to-the-disk") // (currently about nine separate batch writes)

	// the crashing run: same block over a disk that stops accepting writes after `budget` operations
	crash := modelkv.NewCrashDB(disk, v.Choice(writes+1)) // dies before write #budget+1; budget == writes: no crash
	run := mwMustOpen(crash)
	v.Assert(run.LastCommitID().Version == 1, "reopen-before-block-2")
	mwApply(run, b2)
	run.Commit()

	// restart from the disk
	re, err := mwOpen(disk)
	v.Assert(err == nil, "node-restarts-after-the-crash")
	got := re.LastCommitID()
	if got.Version == 2 {
		v.Assert(bytes.Equal(got.Hash, tid2.Hash), "fully-committed-block-2-has-its-app-hash")
		v.Assert(mwStoreAgrees(re, ref), "fully-committed-block-2-has-its-contents")
		return
	}
	v.Assert(got.Version == 1 && bytes.Equal(got.Hash, id1.Hash), "restart-at-the-last-fully-committed-block")
	v.Assert(mwStoreAgrees(re, ref1), "restart-sees-exactly-block-1-contents")
	// re-execute the interrupted block
	mwApply(re, b2)
	rid2 := re.Commit()
	v.Assert(rid2.Version == 2 && bytes.Equal(rid2.Hash, tid2.Hash), "re-executed-block-has-the-uninterrupted-app-hash")
	v.Assert(mwStoreAgrees(re, ref), "re-executed-block-has-the-uninterrupted-contents")
	again := mwMustOpen(disk)
	v.Assert(again.LastCommitID().Version == 2 && bytes.Equal(again.LastCommitID().Hash, tid2.Hash), "and-survives-another-restart")
}
