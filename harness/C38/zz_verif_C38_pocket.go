//verif:dir x/pocketcore/types
package types

import (
	"bytes"
	"math/bits"

	"github.com/pokt-network/pocket-core/codec"
	sdk "github.com/pokt-network/pocket-core/types"
	v "github.com/pokt-network/pocket-core/verifrt"
)

//verif:config VerifC38claim real=(*github.com/pokt-network/pocket-core/codec.ProtoCodec).UnmarshalBinaryLengthPrefixed;(*github.com/pokt-network/pocket-core/codec.ProtoCodec).UnmarshalBinaryBare;(*github.com/pokt-network/pocket-core/codec.ProtoCodec).MarshalBinaryLengthPrefixed;(*github.com/pokt-network/pocket-core/codec.ProtoCodec).MarshalBinaryBare maxpaths=60000 maxsymlen=64
//verif:config VerifC38relayproof real=(*github.com/pokt-network/pocket-core/codec.ProtoCodec).UnmarshalBinaryLengthPrefixed;(*github.com/pokt-network/pocket-core/codec.ProtoCodec).UnmarshalBinaryBare;(*github.com/pokt-network/pocket-core/codec.ProtoCodec).MarshalBinaryLengthPrefixed;(*github.com/pokt-network/pocket-core/codec.ProtoCodec).MarshalBinaryBare maxpaths=60000 maxsymlen=64

// c38sel picks which ONE integer field of the message is fully symbolic (all 64 bits: every
// varint width 1..10 bytes, negative values included); the other integer fields take a fixed small
// value. The varint encoder and decoder fork once per 7 bits, so one symbolic integer per run keeps
// the path count linear; every field gets its turn.
// c38wide: an arbitrary 64-bit value; the run first fixes its varint width class (1..10 bytes), so
// that buffer sizes and offsets inside the generated code are determined.
func c38wide() uint64 {
	x := v.U64()
	w := v.Concretize(int64((bits.Len64(x|1)+6)/7), 1, 10)
	_ = w
	return x
}

type c38sel struct{ pick, n int }

func (s *c38sel) i64() int64 {
	s.n++
	if s.n-1 == s.pick {
		return int64(c38wide())
	}
	return int64(s.n)
}
func (s *c38sel) u64() uint64 {
	s.n++
	if s.n-1 == s.pick {
		return c38wide()
	}
	return uint64(s.n)
}

// VerifC38claim: MsgClaim through the REAL current binary codec (ProtoCodec length-prefixed and
// bare, generated Marshal/Unmarshal): every field value survives the round trip, for arbitrary
// integers (all varint widths, negative included), an arbitrary 0- or 2-byte hash and a 2-byte address.
func VerifC38claim() {
	pcdc := &codec.ProtoCodec{}
	sel := &c38sel{pick: v.Choice(6)}
	m := MsgClaim{
		SessionHeader:    SessionHeader{ApplicationPubKey: "a1b2", Chain: []string{"", "0001"}[v.Choice(2)], SessionBlockHeight: sel.i64()},
		MerkleRoot:       HashRange{Hash: v.Bytes(2 * v.Choice(2)), Range: Range{Lower: sel.u64(), Upper: sel.u64()}},
		TotalProofs:      sel.i64(),
		FromAddress:      sdk.Address(v.Bytes(2)),
		EvidenceType:     EvidenceType(int32(sel.i64())),
		ExpirationHeight: sel.i64(),
	}
	var bz []byte
	var err error
	lp := v.Tier() == 0 || v.Choice(2) == 1 // quick: length-prefixed only (it wraps the bare form)
	if lp {
		bz, err = pcdc.MarshalBinaryLengthPrefixed(&m)
	} else {
		bz, err = pcdc.MarshalBinaryBare(&m)
	}
	v.Assert(err == nil, "encodes")
	var d MsgClaim
	if lp {
		err = pcdc.UnmarshalBinaryLengthPrefixed(bz, &d)
	} else {
		err = pcdc.UnmarshalBinaryBare(bz, &d)
	}
	v.Assert(err == nil, "decodes")
	same := d.SessionHeader.ApplicationPubKey == m.SessionHeader.ApplicationPubKey && d.SessionHeader.Chain == m.SessionHeader.Chain
	same = same && bytes.Equal(d.MerkleRoot.Hash, m.MerkleRoot.Hash) && bytes.Equal(d.FromAddress, m.FromAddress)
	v.Assert(same, "strings-and-bytes-round-trip")
	v.Assert(v.And(d.SessionHeader.SessionBlockHeight == m.SessionHeader.SessionBlockHeight, v.And(d.TotalProofs == m.TotalProofs, d.ExpirationHeight == m.ExpirationHeight)), "signed-integers-round-trip")
	v.Assert(v.And(d.MerkleRoot.Range.Lower == m.MerkleRoot.Range.Lower, d.MerkleRoot.Range.Upper == m.MerkleRoot.Range.Upper), "unsigned-integers-round-trip")
	v.Assert(d.EvidenceType == m.EvidenceType, "enum-round-trips")
	bz2, _ := pcdc.MarshalBinaryBare(&d)
	bz1, _ := pcdc.MarshalBinaryBare(&m)
	v.Assert(bytes.Equal(bz1, bz2), "re-encoding-is-identical")
}

// VerifC38relayproof: RelayProof (the evidence leaf) with its embedded token through the real
// generated code: arbitrary entropy / session height, strings of 0..2 arbitrary bytes.
func VerifC38relayproof() {
	str := func() string { return string(v.Bytes(v.Choice(3))) }
	sel := &c38sel{pick: v.Choice(2)}
	m := RelayProof{RequestHash: str(), Entropy: sel.i64(), SessionBlockHeight: sel.i64(), ServicerPubKey: "d1", Blockchain: "0001",
		Token: AAT{Version: "0.0.1", ApplicationPublicKey: str(), ClientPublicKey: "c1", ApplicationSignature: ""}, Signature: "5g"}
	bz, err := m.Marshal()
	v.Assert(err == nil, "encodes")
	var d RelayProof
	v.Assert(d.Unmarshal(bz) == nil, "decodes")
	v.Assert(d.RequestHash == m.RequestHash && d.ServicerPubKey == m.ServicerPubKey && d.Blockchain == m.Blockchain && d.Signature == m.Signature, "strings-round-trip")
	v.Assert(d.Token.Version == m.Token.Version && d.Token.ApplicationPublicKey == m.Token.ApplicationPublicKey && d.Token.ClientPublicKey == m.Token.ClientPublicKey && d.Token.ApplicationSignature == m.Token.ApplicationSignature, "token-round-trips")
	v.Assert(v.And(d.Entropy == m.Entropy, d.SessionBlockHeight == m.SessionBlockHeight), "integers-round-trip")
}

//verif:config VerifC38challenge maxsymlen=64

// VerifC38challenge: the other evidence leaf type. ChallengeProofInvalidData with 0..2 majority
// responses (each with an arbitrary 1-byte response and signature and a distinct entropy in its
// proof), a minority response and a reporter address: element order, count and every field
// survive the generated Marshal/Unmarshal, and the re-encoding is identical.
func VerifC38challenge() {
	seq := int64(0)
	resp := func() RelayResponse {
		seq++
		return RelayResponse{Signature: string(v.Bytes(1)), Response: string(v.Bytes(1)),
			Proof: RelayProof{Entropy: seq, SessionBlockHeight: 5, ServicerPubKey: "d1", Blockchain: "0001", Token: AAT{Version: "0.0.1"}}}
	}
	var m ChallengeProofInvalidData
	n := v.Choice(3)
	for i := 0; i < n; i++ {
		m.MajorityResponses = append(m.MajorityResponses, resp())
	}
	m.MinorityResponse = resp()
	m.ReporterAddress = sdk.Address(v.Bytes(2))
	bz, err := m.Marshal()
	v.Assert(err == nil, "encodes")
	var d ChallengeProofInvalidData
	v.Assert(d.Unmarshal(bz) == nil, "decodes")
	same := func(a, b RelayResponse) bool {
		return a.Signature == b.Signature && a.Response == b.Response && a.Proof.Blockchain == b.Proof.Blockchain && a.Proof.Token.Version == b.Proof.Token.Version && a.Proof.Entropy == b.Proof.Entropy
	}
	v.Assert(len(d.MajorityResponses) == n, "list-length-round-trips")
	for i := 0; i < n && i < len(d.MajorityResponses); i++ {
		v.Assert(same(d.MajorityResponses[i], m.MajorityResponses[i]), "list-elements-round-trip-in-order")
	}
	v.Assert(same(d.MinorityResponse, m.MinorityResponse) && bytes.Equal(d.ReporterAddress, m.ReporterAddress), "other-fields-round-trip")
	bz2, _ := d.Marshal()
	v.Assert(bytes.Equal(bz, bz2), "re-encoding-is-identical")
}
