//verif:dir x/pocketcore/types
package types

import (
	"bytes"

	"github.com/pokt-network/pocket-core/codec"
	sdk "github.com/pokt-network/pocket-core/types"
	v "github.com/pokt-network/pocket-core/verifrt"
)

//verif:config VerifC38claim real=(*github.com/pokt-network/pocket-core/codec.ProtoCodec).UnmarshalBinaryLengthPrefixed;(*github.com/pokt-network/pocket-core/codec.ProtoCodec).UnmarshalBinaryBare;(*github.com/pokt-network/pocket-core/codec.ProtoCodec).MarshalBinaryLengthPrefixed;(*github.com/pokt-network/pocket-core/codec.ProtoCodec).MarshalBinaryBare maxpaths=60000
//verif:config VerifC38relayproof real=(*github.com/pokt-network/pocket-core/codec.ProtoCodec).UnmarshalBinaryLengthPrefixed;(*github.com/pokt-network/pocket-core/codec.ProtoCodec).UnmarshalBinaryBare;(*github.com/pokt-network/pocket-core/codec.ProtoCodec).MarshalBinaryLengthPrefixed;(*github.com/pokt-network/pocket-core/codec.ProtoCodec).MarshalBinaryBare maxpaths=60000

// c38int is an arbitrary int64 of an arbitrary varint width class (the encoder's loop forks once
// per 7 bits; the class is chosen first so that every width 1..10 bytes is explored).
func c38int() int64 { return v.I64() }

// VerifC38claim: MsgClaim through the REAL current binary codec (ProtoCodec length-prefixed and
// bare, generated Marshal/Unmarshal): every field value survives the round trip, for arbitrary
// integers (all varint widths, negative included), an arbitrary 0..2-byte hash and address.
func VerifC38claim() {
	pcdc := &codec.ProtoCodec{}
	m := MsgClaim{
		SessionHeader:    SessionHeader{ApplicationPubKey: []string{"", "a1b2"}[v.Choice(2)], Chain: []string{"", "0001"}[v.Choice(2)], SessionBlockHeight: c38int()},
		MerkleRoot:       HashRange{Hash: v.Bytes(v.Choice(3)), Range: Range{Lower: v.U64(), Upper: v.U64()}},
		TotalProofs:      c38int(),
		FromAddress:      sdk.Address(v.Bytes(v.Choice(3))),
		EvidenceType:     EvidenceType(v.I32()),
		ExpirationHeight: int64(v.Choice(3)) - 1,
	}
	var bz []byte
	var err error
	lp := v.Choice(2) == 1
	if lp {
		bz, err = pcdc.MarshalBinaryLengthPrefixed(&m)
	} else {
		bz, err = pcdc.MarshalBinaryBare(&m)
	}
	v.Assert(err == nil, "encodes")
	var d MsgClaim
	if lp {
		err = pcdc.UnmarshalBinaryLengthPrefixed(bz, &d)
	} else {
		err = pcdc.UnmarshalBinaryBare(bz, &d)
	}
	v.Assert(err == nil, "decodes")
	same := d.SessionHeader.ApplicationPubKey == m.SessionHeader.ApplicationPubKey && d.SessionHeader.Chain == m.SessionHeader.Chain
	same = same && bytes.Equal(d.MerkleRoot.Hash, m.MerkleRoot.Hash) && bytes.Equal(d.FromAddress, m.FromAddress)
	v.Assert(same, "strings-and-bytes-round-trip")
	v.Assert(v.And(d.SessionHeader.SessionBlockHeight == m.SessionHeader.SessionBlockHeight, v.And(d.TotalProofs == m.TotalProofs, d.ExpirationHeight == m.ExpirationHeight)), "signed-integers-round-trip")
	v.Assert(v.And(d.MerkleRoot.Range.Lower == m.MerkleRoot.Range.Lower, d.MerkleRoot.Range.Upper == m.MerkleRoot.Range.Upper), "unsigned-integers-round-trip")
	v.Assert(d.EvidenceType == m.EvidenceType, "enum-round-trips")
	bz2, _ := pcdc.MarshalBinaryBare(&d)
	bz1, _ := pcdc.MarshalBinaryBare(&m)
	v.Assert(bytes.Equal(bz1, bz2), "re-encoding-is-identical")
}

// VerifC38relayproof: RelayProof (the evidence leaf) with its embedded token through the real
// generated code: arbitrary entropy / session height, strings of 0..2 arbitrary bytes.
func VerifC38relayproof() {
	str := func() string { return string(v.Bytes(v.Choice(3))) }
	m := RelayProof{RequestHash: str(), Entropy: c38int(), SessionBlockHeight: c38int(), ServicerPubKey: "d1", Blockchain: str(),
		Token: AAT{Version: "0.0.1", ApplicationPublicKey: str(), ClientPublicKey: "c1", ApplicationSignature: ""}, Signature: str()}
	bz, err := m.Marshal()
	v.Assert(err == nil, "encodes")
	var d RelayProof
	v.Assert(d.Unmarshal(bz) == nil, "decodes")
	v.Assert(d.RequestHash == m.RequestHash && d.ServicerPubKey == m.ServicerPubKey && d.Blockchain == m.Blockchain && d.Signature == m.Signature, "strings-round-trip")
	v.Assert(d.Token.Version == m.Token.Version && d.Token.ApplicationPublicKey == m.Token.ApplicationPublicKey && d.Token.ClientPublicKey == m.Token.ClientPublicKey && d.Token.ApplicationSignature == m.Token.ApplicationSignature, "token-round-trips")
	v.Assert(v.And(d.Entropy == m.Entropy, d.SessionBlockHeight == m.SessionBlockHeight), "integers-round-trip")
}
