//verif:dir x/nodes/types
package types

import (
	"bytes"

	"github.com/pokt-network/pocket-core/crypto"
	sdk "github.com/pokt-network/pocket-core/types"
	v "github.com/pokt-network/pocket-core/verifrt"
)

//verif:config VerifC38validator maxsymlen=64 maxpaths=60000

// c38delegators: nil, empty, or 1..2 delegators whose shares are arbitrary 32-bit values (zero
// included: a delegator with a zero share is a legal stored value and has to survive).
func c38delegators() map[string]uint32 {
	switch v.Choice(4) {
	case 0:
		return nil
	case 1:
		return map[string]uint32{}
	case 2:
		return map[string]uint32{"d1": v.U32()}
	}
	return map[string]uint32{"d1": v.U32(), "d2": v.U32()}
}

func c38sameDelegators(a, b map[string]uint32) bool {
	if len(a) != len(b) {
		return false
	}
	ok := true
	for _, k := range []string{"d1", "d2"} {
		x, inA := a[k]
		y, inB := b[k]
		if inA != inB {
			return false
		}
		if inA {
			ok = v.And(ok, x == y)
		}
	}
	return ok
}

func c38validator() Validator {
	pk := crypto.Ed25519PublicKey{}
	pk[0], pk[31] = v.U8(), v.U8()
	chains := [][]string{nil, {"0001"}, {"0001", "0021"}}[v.Choice(3)]
	var out sdk.Address
	if v.Choice(2) == 1 {
		out = sdk.Address(v.Bytes(2))
	}
	return Validator{
		Address:          sdk.Address(v.Bytes(2)),
		PublicKey:        pk,
		Jailed:           v.Bool(),
		Status:           sdk.StakeStatus(v.Choice(3)),
		Chains:           chains,
		ServiceURL:       string(v.Bytes(v.Choice(3))),
		StakedTokens:     sdk.NewInt(15000000000),
		OutputAddress:    out,
		RewardDelegators: c38delegators(),
	}
}

func c38sameValidator(a, b Validator) bool {
	same := bytes.Equal(a.Address, b.Address) && bytes.Equal(a.OutputAddress, b.OutputAddress) && a.ServiceURL == b.ServiceURL
	same = same && bytes.Equal(a.PublicKey.RawBytes(), b.PublicKey.RawBytes())
	same = same && a.Jailed == b.Jailed && a.Status == b.Status && a.StakedTokens.Equal(b.StakedTokens)
	if len(a.Chains) != len(b.Chains) {
		return false
	}
	for i := range a.Chains {
		same = same && a.Chains[i] == b.Chains[i]
	}
	return same
}

// VerifC38validator: the hand-written conversion pair every stored validator goes through
// (Validator.ToProto / ProtoValidator.FromProto, the halves of Marshal and Unmarshal that are not
// generated code): every field, every chain, the output address and every reward delegator with
// its share (zero shares included) are the same after the pair, and nil-ness of the map survives.
func VerifC38validator() {
	m := c38validator()
	p := m.ToProto()
	d, err := p.FromProto()
	v.Assert(err == nil, "converts-back")
	v.Assert(c38sameValidator(m, d), "validator-fields-round-trip")
	v.Assert(c38sameDelegators(m.RewardDelegators, d.RewardDelegators), "reward-delegators-round-trip")
	v.Assert(d.UnstakingCompletionTime.Equal(m.UnstakingCompletionTime), "completion-time-round-trips")
}
