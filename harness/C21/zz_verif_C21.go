//verif:dir x/nodes/keeper
package keeper

// VerifC21: inductive step — from an arbitrary state whose lookup indexes agree with the node
// records, every operation of the module leaves them in agreement.
func VerifC21() {
	w := c19world()
	w.checkIndexes("pre")
	c19step(w)
	w.checkIndexes("post")
}
