//verif:dir x/nodes/keeper
package keeper

import (
	"math/big"

	"github.com/pokt-network/pocket-core/codec"
	"github.com/pokt-network/pocket-core/crypto"
	sdk "github.com/pokt-network/pocket-core/types"
	"github.com/pokt-network/pocket-core/x/nodes/types"
	v "github.com/pokt-network/pocket-core/verifrt"
	tmcrypto "github.com/tendermint/tendermint/crypto"
)

// VerifC23: an edit-stake of an already staked node, as handleStake runs it (ValidateValidatorStaking
// then StakeValidator), for every signer, amount, new output address and delegator map, at heights
// on both sides of the output-address-edit and reward-delegator feature heights: the stored record
// never loses stake and keeps address, key, jailed flag and status; the output address changes only
// when the current output signs (feature active) or none was set; delegators change only when the
// operator signs; a node waiting to unstake is not editable.
func VerifC23() {
	w := nwNew(false)
	// feature heights around the block height instead of "always on"
	codec.TestMode = -2
	h := w.ctx.Height
	feat := func(key string) {
		switch v.Choice(3) {
		case 0:
			codec.UpgradeFeatureMap[key] = 1 // long active
		case 1:
			codec.UpgradeFeatureMap[key] = h // activates exactly now
		case 2:
			codec.UpgradeFeatureMap[key] = h + 1 // not yet
		}
	}
	codec.UpgradeFeatureMap[codec.NonCustodialUpdateKey] = 1
	feat(codec.OutputAddressEditKey)
	feat(codec.RewardDelegatorsKey)
	oedit := w.k.Cdc.IsAfterOutputAddressEditorUpgrade(h)

	stake := v.BigIn("1", nwMaxTokens)
	cur := types.Validator{Address: w.addrs[0], PublicKey: w.pks[0], ServiceURL: "https://n0:443", Chains: []string{nwChains[0]},
		Status: sdk.Staked, Jailed: v.Choice(2) == 1, StakedTokens: sdk.NewIntFromBigInt(stake)}
	otherOut := sdk.Address([]byte("output-address-11111"))
	delA := map[string]uint32{sdk.Address([]byte("delegator-address-01")).String(): 10}
	delB := map[string]uint32{sdk.Address([]byte("delegator-address-02")).String(): 20}
	if v.Choice(2) == 1 {
		cur.OutputAddress = w.out
	}
	if v.Choice(2) == 1 {
		cur.RewardDelegators = delA
	}
	w.install(cur)
	cur, _ = w.k.GetValidator(w.ctx, w.addrs[0]) // the record as stored (delegators are not stored before their feature height)
	waiting := v.Choice(2) == 1
	if waiting {
		w.k.SetWaitingValidator(w.ctx, cur)
	}
	for _, a := range []sdk.Address{w.addrs[0], w.addrs[2], w.out, otherOut} {
		w.credit(a, big.NewInt(2000000000000000))
	}
	// the edit message
	nv := types.Validator{Address: w.addrs[0], PublicKey: w.pks[0], Status: sdk.Staked, ServiceURL: "https://edited:443",
		Chains: []string{nwChains[1]}, StakedTokens: sdk.ZeroInt()}
	nv.OutputAddress = []sdk.Address{nil, w.out, otherOut, w.addrs[2]}[v.Choice(4)] // (a stranger may name itself)
	nv.RewardDelegators = []map[string]uint32{nil, delA, delB}[v.Choice(3)]
	amount := v.BigIn("0", nwMaxTokens+"0")
	signerIdx := v.Choice(3)
	// the transaction signer: operator key, or a key whose address is the (current or new) output
	// address cannot be fabricated for fixed addresses, so output-address signers are modelled by
	// passing that address to validation and a key with that address to StakeValidator's payer role
	signerAddr := []sdk.Address{w.addrs[0], w.out, w.addrs[2]}[signerIdx]
	if err := w.k.ValidateValidatorStaking(w.ctx, nv, sdk.NewIntFromBigInt(amount), signerAddr); err != nil {
		return
	}
	v.Reach("edit-accepted")
	v.Assert(!waiting, "waiting-node-not-editable")
	v.Assert(!signerAddr.Equals(w.addrs[2]), "stranger-cannot-edit")
	payer := c23payer{addr: signerAddr}
	_ = w.k.StakeValidator(w.ctx, nv, sdk.NewIntFromBigInt(amount), payer)
	got, found := w.k.GetValidator(w.ctx, w.addrs[0])
	v.Assert(found, "record-kept")
	v.Assert(got.StakedTokens.BigInt().Cmp(stake) >= 0, "stake-never-lowered")
	v.Assert(got.Address.Equals(cur.Address) && got.PublicKey.Equals(cur.PublicKey), "address-and-key-unchanged")
	v.Assert(got.Jailed == cur.Jailed && got.Status == cur.Status, "jailed-and-status-unchanged")
	if !got.OutputAddress.Equals(cur.OutputAddress) {
		v.Assert(cur.OutputAddress == nil || (oedit && signerAddr.Equals(cur.OutputAddress)), "output-changes-only-by-current-output-or-when-unset")
	}
	if !sdk.CompareStringMaps(got.RewardDelegators, cur.RewardDelegators) {
		v.Assert(signerAddr.Equals(cur.Address), "delegators-change-only-by-operator")
	}
	w.checkPool("pool-invariant-after-edit")
	w.checkIndexes("indexes-after-edit")
}

// c23payer is a public key stand-in whose address is the signer's address (only Address() is used
// by EditStakeValidator, to debit the payer).
type c23payer struct {
	crypto.PublicKey
	addr sdk.Address
}

func (p c23payer) Address() tmcrypto.Address { return tmcrypto.Address(p.addr) }
