//verif:dir x/gov/keeper
//verif:load ./app
package keeper

import (
	"math"
	"sort"
	"strings"

	"github.com/pokt-network/pocket-core/codec"
	sdk "github.com/pokt-network/pocket-core/types"
	"github.com/pokt-network/pocket-core/x/auth"
	authKeeper "github.com/pokt-network/pocket-core/x/auth/keeper"
	authTypes "github.com/pokt-network/pocket-core/x/auth/types"
	"github.com/pokt-network/pocket-core/x/gov/types"
	v "github.com/pokt-network/pocket-core/verifrt"
	"github.com/pokt-network/pocket-core/verifrt/vworld"
)

//verif:config VerifC37 native=no

var c37heights = []int64{7, 12, 130}

func c37feat(key string, h int64) string {
	return key + ":" + map[int64]string{7: "7", 12: "12", 130: "130"}[h]
}

// VerifC37: a governance feature upgrade on top of an arbitrary earlier upgrade — every feature of
// the message is active from exactly its height, earlier features keep theirs unless rescheduled,
// the stored list is sorted and duplicate-free; and a node restarted afterwards (the tail of
// app.NewPocketCoreApp after it reads the stored upgrade) ends up with the same activation state as
// the node that stayed up.
func VerifC37() {
	owner := sdk.Address([]byte("governor-address-aaa"))
	codec.TestMode = -1 // ctx.IsAfterUpgradeHeight needs the codec upgrade only
	codec.UpgradeHeight, codec.OldUpgradeHeight = math.MaxInt64, 0
	codec.UpgradeFeatureMap = map[string]int64{}
	ctx := vworld.New(v.Int64In(40000, 1000000))
	cdc := verifCodec()
	ak := authKeeper.NewKeeper(cdc, sdk.NewKVStoreKey(authTypes.StoreKey), sdk.NewSubspace(auth.DefaultParamspace), map[string][]string{types.DAOAccountName: {auth.Burner}})
	k := NewKeeper(cdc, sdk.ParamsKey, sdk.ParamsTKey, "gov", ak)
	aclKey := types.NewACLKey(types.ModuleName, string(types.UpgradeKey))
	var acl types.ACL
	acl.SetOwner(aclKey, owner)

	// the upgrade stored so far: none, a version upgrade, or a version upgrade with one feature
	old := types.Upgrade{}
	switch v.Choice(3) {
	case 1:
		old = types.Upgrade{Height: 30000, Version: "0.9.0"}
	case 2:
		old = types.Upgrade{Height: 30000, Version: "0.9.0", Features: []string{c37feat("RSCAL", c37heights[v.Choice(3)])}}
	}
	if old.Height != 0 {
		codec.UpgradeHeight = old.Height
	}
	codec.UpgradeFeatureMap = codec.SliceToExistingMap(old.Features, codec.UpgradeFeatureMap)
	params := types.Params{ACL: acl, DAOOwner: owner, Upgrade: old}
	if v.Native() {
		k.SetParams(ctx, params)
	} else {
		v.Param(string(types.ACLKey), params.ACL)
		v.Param(string(types.DAOOwnerKey), params.DAOOwner)
		v.Param(string(types.UpgradeKey), params.Upgrade)
	}
	// the feature-upgrade message: one or two features, possibly rescheduling the old one
	msgFeatures := []string{c37feat([]string{"RSCAL", "VEDIT"}[v.Choice(2)], c37heights[v.Choice(3)])}
	if v.Choice(2) == 1 {
		msgFeatures = append(msgFeatures, c37feat("NCUST", c37heights[v.Choice(3)]))
	}
	want := codec.SliceToExistingMap(msgFeatures, codec.SliceToExistingMap(old.Features, map[string]int64{}))
	res := k.HandleUpgrade(ctx, aclKey, types.Upgrade{Height: 1, Version: FeatureUpgradeKey, Features: msgFeatures}, owner)
	v.Assert(res.IsOK(), "owner-upgrade-accepted")

	// live node: activation state
	h := v.Int64In(1, 200)
	for key, at := range want {
		v.Assert(codec.UpgradeFeatureMap[key] == at, "feature-scheduled-at-its-height")
		v.Assert(k.cdc.IsAfterNamedFeatureActivationHeight(h, key) == (h >= at), "feature-active-exactly-from-its-height")
	}
	v.Assert(len(codec.UpgradeFeatureMap) == len(want), "no-feature-invented")
	stored := k.GetUpgrade(ctx)
	v.Assert(sort.StringsAreSorted(stored.Features), "stored-features-sorted")
	seen := map[string]bool{}
	for _, f := range stored.Features {
		key := strings.Split(f, ":")[0]
		v.Assert(!seen[key], "stored-features-duplicate-free")
		seen[key] = true
	}
	v.Assert(len(stored.Features) == len(want), "stored-features-complete")

	// restarted node: fresh process state, then the tail of NewPocketCoreApp on the stored upgrade
	liveMap, liveH, liveOld := codec.UpgradeFeatureMap, codec.UpgradeHeight, codec.OldUpgradeHeight
	codec.UpgradeFeatureMap, codec.UpgradeHeight, codec.OldUpgradeHeight = map[string]int64{}, math.MaxInt64, 0
	if !v.RunRegion("github.com/pokt-network/pocket-core/app.NewPocketCoreApp", "Keeper).GetUpgrade", stored) {
		return // native build: region execution is engine-only
	}
	same := len(codec.UpgradeFeatureMap) == len(liveMap)
	for key, at := range liveMap {
		same = same && codec.UpgradeFeatureMap[key] == at
	}
	v.AssertK(same, "restart-restores-feature-activation",
		v.Known("C37-K1", stored.Height == 0))
	v.AssertK(codec.UpgradeHeight == liveH && codec.OldUpgradeHeight == liveOld, "restart-restores-upgrade-heights",
		v.Known("C37-K1", stored.Height == 0))
}
