//verif:dir x/gov/keeper
//go:build verifnative

package keeper

import "github.com/pokt-network/pocket-core/codec"

func verifCodec() *codec.Codec { return makeTestCodec() }
