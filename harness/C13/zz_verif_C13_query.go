//verif:dir baseapp
package baseapp

import (
	"github.com/pokt-network/pocket-core/store/rootmulti"
	sdk "github.com/pokt-network/pocket-core/types"
	v "github.com/pokt-network/pocket-core/verifrt"
	"github.com/pokt-network/pocket-core/verifrt/modelkv"
	abci "github.com/tendermint/tendermint/abci/types"
	"github.com/tendermint/tendermint/libs/log"
)

// VerifC13query: the REAL baseapp.handleQueryCustom on a BaseApp over a real multistore with an
// IAVL substore holding two committed versions. A custom query at the OLD height runs the querier
// on that height's state (it reads the old value) — and, so that keepers keep their node-local
// caches out of it, on a context marked historical. The second half does not hold (C13-K1): the
// context is an ordinary one, so keeper caches are filled from historical state (VerifC13apps
// shows the consensus read that goes wrong).
func VerifC13query() {
	db := modelkv.NewUnorderedDB()
	key := sdk.NewKVStoreKey("main")
	rs := rootmulti.NewStore(db, false, 0)
	rs.MountStoreWithDB(key, sdk.StoreTypeIAVL, nil)
	if err := rs.LoadLatestVersion(); err != nil {
		panic(err)
	}
	k := []byte("k")
	oldV, newV := v.Bytes(1), v.Bytes(1)
	_ = rs.GetKVStore(key).Set(k, oldV)
	rs.Commit()
	_ = rs.GetKVStore(key).Set(k, newV)
	rs.Commit()
	app := &BaseApp{logger: log.NewNopLogger(), cms: rs, router: NewRouter(), queryRouter: NewQueryRouter(), transactionCache: map[string]struct{}{}}
	app.setCheckState(abci.Header{Height: 3, ChainID: "verif"})
	var seen []byte
	var historical, called bool
	app.queryRouter.AddRoute("q", func(ctx sdk.Ctx, path []string, req abci.RequestQuery) ([]byte, sdk.Error) {
		called = true
		seen, _ = ctx.KVStore(key).Get(k)
		historical = ctx.IsPrevCtx()
		return nil, nil
	})
	height := int64(1 + v.Choice(2))
	res := handleQueryCustom(app, []string{"custom", "q"}, abci.RequestQuery{Height: height})
	v.Assert(res.Code == 0 && called, "query-served")
	want := oldV
	if height == 2 {
		want = newV
	}
	v.Assert(len(seen) == 1 && seen[0] == want[0], "querier-reads-the-requested-heights-state")
	v.AssertK(v.Implies(height < 2, historical), "historical-query-context-is-marked-historical", v.Known("C13-K1q", true))
}
