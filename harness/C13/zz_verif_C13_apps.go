//verif:dir x/apps/keeper
package keeper

import (
	sdk "github.com/pokt-network/pocket-core/types"
	"github.com/pokt-network/pocket-core/x/apps/types"
	v "github.com/pokt-network/pocket-core/verifrt"
)

// c13same compares what two nodes read for the same application.
func c13same(a types.Application, fa bool, b types.Application, fb bool) bool {
	if fa != fb {
		return false
	}
	if !fa {
		return true
	}
	return v.And(a.StakedTokens.BigInt().Cmp(b.StakedTokens.BigInt()) == 0, a.Status == b.Status && a.Jailed == b.Jailed && a.Address.Equals(b.Address))
}

// VerifC13apps: two nodes hold the same committed state: the application record of an earlier
// height (old) and the current one (cur, possibly deleted). Both were restarted (cold node-local
// application cache). Node Y then serves ONE piece of off-chain activity, node X none:
//   0 nothing;
//   1 a read through a historical context as Context.PrevCtx builds it (marked historical);
//   2 a custom query at the old height: baseapp.handleQueryCustom runs the querier on a context
//     over the OLD state that is NOT marked historical (see VerifC13query);
//   3 a simulated transaction: the handler's write goes to a store copy that is thrown away, through
//     a context that is not marked historical.
// Then the next block reads the application on both nodes (GetApplication, as every handler does):
// both must read the same record — the one in the committed state.
func VerifC13apps() {
	w := awNew()
	old := w.arbitraryApp(0)
	w.install(old)
	hist := w.ctx.Clone() // the state at the earlier height
	cur := old
	deleted := v.Choice(2) == 1
	if deleted {
		_ = w.ctx.KVStore(w.k.storeKey).Delete(types.KeyForAppByAllApps(old.Address))
	} else {
		cur.StakedTokens = sdk.NewIntFromBigInt(v.BigIn("1", awMaxTokens))
		cur.Jailed = v.Choice(2) == 1
		bz, _ := types.MarshalApplication(w.k.Cdc, w.ctx, cur)
		_ = w.ctx.KVStore(w.k.storeKey).Set(types.KeyForAppByAllApps(cur.Address), bz)
	}
	cold := func() Keeper {
		k := w.k
		k.ApplicationCache = sdk.NewCache(10)
		return k
	}
	x, y := cold(), cold()
	activity := v.Choice(4)
	switch activity {
	case 1:
		hist.Prev = true
		_, _ = y.GetApplication(hist, old.Address)
	case 2:
		hist.Prev = false
		_, _ = y.GetApplication(hist, old.Address)
	case 3:
		sim := w.ctx.Clone() // cache-wrapped copy, discarded afterwards
		phantom := cur
		phantom.Address = old.Address
		phantom.StakedTokens = sdk.NewIntFromBigInt(v.BigIn("1", awMaxTokens))
		y.SetApplication(sim, phantom)
	}
	ax, fx := x.GetApplication(w.ctx, old.Address)
	ay, fy := y.GetApplication(w.ctx, old.Address)
	v.Assert(fx == !deleted, "cold-node-reads-the-committed-state")
	v.AssertK(c13same(ax, fx, ay, fy), "next-block-reads-the-same-record-on-both-nodes",
		v.Known("C13-K1", activity == 2), v.Known("C13-K2", activity == 3))
}

// VerifC13warm: consensus itself must keep the node-local cache in step with the state. Node Y
// executed the previous block (one arbitrary state-changing operation of the application module on
// an arbitrary record) and keeps its application cache; node X restarted afterwards (cold cache)
// over the same committed state. The next block reads the application on both: same record.
func VerifC13warm() {
	w := awNew()
	app := w.arbitraryApp(0)
	w.install(app)
	w.fund(w.addrs[0])
	y := w.k // warm: the keeper that executes the block
	switch v.Choice(6) {
	case 0:
		y.unstakeAllMatureApplications(w.ctx)
	case 1:
		y.JailApplication(w.ctx, w.addrs[0])
	case 2:
		if !app.IsUnstaked() {
			_ = y.ForceApplicationUnstake(w.ctx, app)
		}
	case 3:
		if y.ValidateApplicationBeginUnstaking(w.ctx, app) == nil {
			y.BeginUnstakingApplication(w.ctx, app)
		}
	case 4:
		y.DeleteApplication(w.ctx, w.addrs[0])
	case 5:
		y.UnjailApplication(w.ctx, w.addrs[0])
	}
	x := w.k
	x.ApplicationCache = sdk.NewCache(10) // restarted node
	ax, fx := x.GetApplication(w.ctx, w.addrs[0])
	ay, fy := y.GetApplication(w.ctx, w.addrs[0])
	v.Assert(c13same(ax, fx, ay, fy), "warm-and-restarted-node-read-the-same-record")
}
