//verif:dir store/rootmulti
package rootmulti

import (
	"bytes"

	"github.com/pokt-network/pocket-core/store/types"
	v "github.com/pokt-network/pocket-core/verifrt"
	"github.com/pokt-network/pocket-core/verifrt/modelkv"
)

// VerifC06: two nodes execute the same two blocks of arbitrary persistent writes; one of them
// also writes arbitrary entries to the transient store in each block. Every commit advances the
// version by exactly one; both nodes report the same app hash for every block (the transient
// store never influences it); the transient store is empty again after each commit (probed with Get at the written and at an arbitrary key: the
// transient store's own iterator runs on goroutines, which the engine does not execute); reopening
// reports the same commit id.
func VerifC06() {
	dbX, dbY := modelkv.NewUnorderedDB(), modelkv.NewUnorderedDB()
	x, y := mwMustOpen(dbX), mwMustOpen(dbY)
	// a third node that has no transient store mounted at all: the app hash is a function of the
	// persistent substores only, so it must agree as well
	z := NewStore(modelkv.NewUnorderedDB(), false, 0)
	z.MountStoreWithDB(mwA, types.StoreTypeIAVL, nil)
	z.MountStoreWithDB(mwB, types.StoreTypeIAVL, nil)
	v.Assert(z.LoadLatestVersion() == nil, "reference-node-opens")
	ref := mwNewRef()
	v.Assert(x.LastCommitID().Version == 0, "fresh-store-at-version-0")
	for blk := int64(1); blk <= 2; blk++ {
		ops := mwBlock(1) // (two writes per block did not finish within the thorough budget: same bound in both tiers)
		mwApply(x, ops)
		mwApply(y, ops)
		mwApply(z, ops)
		ref.apply(ops)
		tk, tv := v.Bytes(1), v.Bytes(1)
		_ = y.GetKVStore(mwT).Set(tk, tv) // only node y uses the transient store
		got, _ := y.GetKVStore(mwT).Get(tk)
		v.Assert(bytes.Equal(got, tv), "transient-store-usable-within-the-block")
		idX, idY := x.Commit(), y.Commit()
		v.Assert(idX.Version == blk && idY.Version == blk, "version-advances-by-exactly-one")
		v.Assert(bytes.Equal(idX.Hash, idY.Hash), "app-hash-independent-of-transient-store")
		idZ := z.Commit()
		v.Assert(idZ.Version == blk && bytes.Equal(idZ.Hash, idX.Hash), "app-hash-is-that-of-the-persistent-substores-alone")
		gone, _ := y.GetKVStore(mwT).Get(tk)
		probe, _ := y.GetKVStore(mwT).Get(v.Bytes(1)) // any other key as well
		v.Assert(gone == nil && probe == nil, "transient-store-empty-after-commit")
		v.Assert(x.LastCommitID().Version == blk && bytes.Equal(x.LastCommitID().Hash, idX.Hash), "last-commit-id-is-the-reported-one")
	}
	re := mwMustOpen(dbY)
	v.Assert(re.LastCommitID().Version == y.LastCommitID().Version && bytes.Equal(re.LastCommitID().Hash, y.LastCommitID().Hash), "reopened-store-reports-the-same-commit-id")
	v.Assert(mwStoreAgrees(re, ref), "reopened-store-holds-exactly-the-written-state")
	probe, _ := re.GetKVStore(mwT).Get(v.Bytes(1))
	v.Assert(probe == nil, "transient-store-empty-after-restart")
}
