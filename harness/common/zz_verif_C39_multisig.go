//verif:dir crypto
//verif:for C14,C39
package crypto

import (
	"bytes"

	v "github.com/pokt-network/pocket-core/verifrt"
	tmcrypto "github.com/tendermint/tendermint/crypto"
)

//verif:config VerifC39multisig native=no
//verif:config VerifC39equals native=no

// c39member is a member key whose signature check is an arbitrary (symbolic) verdict per member:
// the elliptic-curve arithmetic is idealised, what is checked is the multi-signature logic.
type c39member struct {
	PublicKey
	id      byte
	verdict bool
	calls   *[]byte
	sig     []byte
}

func (m c39member) VerifyBytes(msg []byte, sig []byte) bool {
	*m.calls = append(*m.calls, m.id)
	// the member accepts exactly its own signature bytes, and then only if its (arbitrary) verdict says so
	return v.And(bytes.Equal(sig, m.sig), m.verdict)
}
func (m c39member) Equals(o tmcrypto.PubKey) bool {
	om, ok := o.(c39member)
	return ok && om.id == m.id
}

// VerifC39multisig: a multi-signature verifies iff it carries exactly one signature per member key
// and every member accepts the signature at ITS position; signatures are built in member order
// with AddSignatureByIndex and survive Marshal/Unmarshal.
func VerifC39multisig() {
	n := 2 + v.Choice(2) // 2..3 member keys
	var calls []byte
	keys := make([]PublicKey, n)
	members := make([]c39member, n)
	for i := 0; i < n; i++ {
		members[i] = c39member{id: byte(i), verdict: v.Bool(), calls: &calls, sig: []byte{0xA0 + byte(i), v.U8()}}
		if i > 0 && v.Choice(2) == 1 {
			members[i] = members[i-1] // the SAME key listed twice: its own slot still needs its own signature
		}
		keys[i] = members[i]
	}
	pms := PublicKeyMultiSignature{PublicKeys: keys}
	// the signature object: k signatures (possibly fewer or more than n), each either the right
	// member's signature or another member's (a swap)
	k := 1 + v.Choice(4) // 1..4 signatures
	var ms MultiSig = MultiSignature{}.NewMultiSignature()
	allRight := true
	for j := 0; j < k; j++ {
		src := j
		if v.Choice(2) == 1 {
			src = (j + 1) % n // someone else's signature at this position
		}
		if src >= n {
			src = 0
		}
		allRight = allRight && j < n && members[src].id == members[j].id // (a repeated key has one signature)
		ms = ms.AddSignatureByIndex(members[src].sig, j)
	}
	for j := 0; j < k; j++ {
		got, found := ms.GetSignatureByIndex(j)
		v.Assert(found, "in-order-build-keeps-every-signature")
		_ = got
	}
	ok := pms.VerifyBytes([]byte("message"), ms.Marshal())
	want := k == n && allRight
	if want {
		for i := 0; i < n; i++ {
			want = v.And(want, members[i].verdict)
		}
	}
	v.Assert(ok == want, "verifies-iff-every-member-accepts-its-own-position")
	if ok {
		v.Assert(len(calls) == n, "every-member-was-asked")
	}
	// an undecodable signature blob never verifies
	v.Assert(!pms.VerifyBytes([]byte("message"), []byte{1, 2, 3}), "garbage-signature-rejected")
}

// VerifC39equals: multi-signature keys are equal iff they list equal member keys in the same order.
func VerifC39equals() {
	var calls []byte
	mk := func(ids []byte) PublicKeyMultiSignature {
		var ks []PublicKey
		for _, id := range ids {
			ks = append(ks, c39member{id: id, calls: &calls})
		}
		return PublicKeyMultiSignature{PublicKeys: ks}
	}
	lists := [][]byte{{0, 1}, {1, 0}, {0, 1, 2}, {0, 1}}
	a, b := lists[v.Choice(4)], lists[v.Choice(4)]
	same := len(a) == len(b)
	if same {
		for i := range a {
			same = same && a[i] == b[i]
		}
	}
	v.Assert(mk(a).Equals(mk(b)) == same, "equal-iff-same-members-in-order")
}
