//verif:dir x/pocketcore/types
//verif:for C34,C35
//go:build !verifnative

package types

// rwInit: nothing to prepare in the engine (service metrics calls are no-ops there).
func rwInit() {}
