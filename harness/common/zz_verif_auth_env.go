//verif:dir x/auth
//verif:for C14,C15,C16
//go:build !verifnative

package auth

import (
	"github.com/pokt-network/pocket-core/codec"
	"github.com/tendermint/tendermint/state/txindex"
)

type tmIndexer = txindex.TxIndexer

func verifCodec() *codec.Codec { return codec.NewCodec(nil) }
