//verif:dir baseapp
//verif:for C11,C16
package baseapp

import (
	"github.com/pokt-network/pocket-core/crypto"
	"github.com/pokt-network/pocket-core/store/rootmulti"
	sdk "github.com/pokt-network/pocket-core/types"
	v "github.com/pokt-network/pocket-core/verifrt"
	"github.com/pokt-network/pocket-core/verifrt/modelkv"
	abci "github.com/tendermint/tendermint/abci/types"
	"github.com/tendermint/tendermint/libs/log"
	"github.com/tendermint/tendermint/state/txindex"
)

type c11msg struct{ sdk.ProtoMsg }

func (c11msg) Route() string             { return "verif" }
func (c11msg) Type() string              { return "verif_msg" }
func (c11msg) ValidateBasic() sdk.Error  { return nil }
func (c11msg) GetSignBytes() []byte      { return []byte("m") }
func (c11msg) GetSigners() []sdk.Address { return []sdk.Address{sdk.Address("signer-address-aaaaa")} }
func (c11msg) GetRecipient() sdk.Address { return nil }
func (c11msg) GetFee() sdk.BigInt        { return sdk.NewInt(1) }

type c11tx struct{}

func (c11tx) GetMsg() sdk.Msg          { return c11msg{} }
func (c11tx) ValidateBasic() sdk.Error { return nil }

// c11app builds a BaseApp directly: a real rootmulti.Store with one DB-backed substore over the
// model DB, an ante handler and a message handler that WRITE arbitrary keys through the context
// they are given, and arbitrary abort / result verdicts.
func c11app(db modelkv.DB, key *sdk.KVStoreKey) *BaseApp {
	rs := rootmulti.NewStore(db, false, 0)
	rs.MountStoreWithDB(key, sdk.StoreTypeDB, nil)
	if err := rs.LoadLatestVersion(); err != nil {
		panic(err)
	}
	app := &BaseApp{logger: log.NewNopLogger(), cms: rs, router: NewRouter(), queryRouter: NewQueryRouter(), transactionCache: map[string]struct{}{}}
	anteAbort, msgOK := v.Choice(2) == 1, v.Choice(2) == 1
	ak, av, mk, mv := v.Bytes(1), v.Bytes(1), v.Bytes(1), v.Bytes(1)
	app.anteHandler = func(ctx sdk.Ctx, tx sdk.Tx, txBz []byte, ix txindex.TxIndexer, simulate bool) (sdk.Ctx, sdk.Result, crypto.PublicKey, bool) {
		_ = ctx.KVStore(key).Set(ak, av) // e.g. the fee deduction
		if anteAbort {
			return nil, sdk.ErrUnauthorized("verif").Result(), nil, true
		}
		return ctx, sdk.Result{}, nil, false
	}
	app.router.AddRoute("verif", func(ctx sdk.Ctx, msg sdk.Msg, signer crypto.PublicKey) sdk.Result {
		_ = ctx.KVStore(key).Set(mk, mv) // the message's state change
		if !msgOK {
			return sdk.ErrInternal("verif").Result()
		}
		return sdk.Result{}
	})
	header := abci.Header{Height: 5, ChainID: "verif"}
	app.setCheckState(header)
	app.setDeliverState(header)
	return app
}

