//verif:dir x/pocketcore/types
//verif:for C34,C35
package types

import (
	"sync"

	"github.com/pokt-network/pocket-core/codec"
	"github.com/pokt-network/pocket-core/crypto"
	sdk "github.com/pokt-network/pocket-core/types"
	appexported "github.com/pokt-network/pocket-core/x/apps/exported"
	v "github.com/pokt-network/pocket-core/verifrt"
	"github.com/pokt-network/pocket-core/verifrt/modelkv"
	abci "github.com/tendermint/tendermint/abci/types"
)

// Shared world for the relay-serving harnesses: a servicer node with REAL evidence and session
// cache storages (LRU cache + model DB), stub keepers answering from a small concrete state.

const (
	rwA1 = "a1a1a1a1a1a1a1a1a1a1a1a1a1a1a1a1a1a1a1a1a1a1a1a1a1a1a1a1a1a1a1a1" // staked application
	rwA2 = "a2a2a2a2a2a2a2a2a2a2a2a2a2a2a2a2a2a2a2a2a2a2a2a2a2a2a2a2a2a2a2a2" // not an application
	rwC1 = "c1c1c1c1c1c1c1c1c1c1c1c1c1c1c1c1c1c1c1c1c1c1c1c1c1c1c1c1c1c1c1c1"
	rwD1 = "d1d1d1d1d1d1d1d1d1d1d1d1d1d1d1d1d1d1d1d1d1d1d1d1d1d1d1d1d1d1d1d1" // this node
	rwD2 = "d2d2d2d2d2d2d2d2d2d2d2d2d2d2d2d2d2d2d2d2d2d2d2d2d2d2d2d2d2d2d2d2" // another node
	rwS1 = "51515151515151515151515151515151515151515151515151515151515151515151515151515151515151515151515151515151515151515151515151515151"
	rwG1 = "61616161616161616161616161616161616161616161616161616161616161616161616161616161616161616161616161616161616161616161616161616161"
)

func rwPub(h string) crypto.PublicKey {
	pk, err := crypto.NewPublicKey(h)
	if err != nil {
		panic(err)
	}
	return pk
}

func rwAddr(h string) sdk.Address { return sdk.Address(rwPub(h).Address()) }

type rwPriv struct {
	crypto.PrivateKey
	pub string
}

func (p rwPriv) PublicKey() crypto.PublicKey { return rwPub(p.pub) }

type rwCtx struct {
	sdk.Ctx
	h int64
}

func (c rwCtx) BlockHeight() int64                 { return c.h }
func (c rwCtx) PrevCtx(h int64) (sdk.Context, error) {
	return sdk.Context{}.WithBlockHeader(abci.Header{Height: h}), nil
}
func (c rwCtx) IsPrevCtx() bool                    { return false }

type rwApp struct {
	appexported.ApplicationI
	pub    string
	chains []string
	max    int64
}

func (a rwApp) GetChains() []string            { return a.chains }
func (a rwApp) GetPublicKey() crypto.PublicKey { return rwPub(a.pub) }
func (a rwApp) GetMaxRelays() sdk.BigInt       { return sdk.NewInt(a.max) }
func (a rwApp) GetAddress() sdk.Address        { return rwAddr(a.pub) }

type rwKeepers struct {
	PosKeeper
	app       rwApp
	nodeCount int64
}

func (k rwKeepers) Application(ctx sdk.Ctx, addr sdk.Address) appexported.ApplicationI {
	if addr.Equals(rwAddr(k.app.pub)) {
		return k.app
	}
	return nil
}
func (k rwKeepers) MaxChains(ctx sdk.Ctx) int64          { return 15 }
func (k rwKeepers) BlocksPerSession(ctx sdk.Ctx) int64   { return 4 }
func (k rwKeepers) SessionNodeCount(ctx sdk.Ctx) int64   { return k.nodeCount }
func (k rwKeepers) Codec() *codec.Codec                  { return ModuleCdc }
func (k rwKeepers) GetStakedTokens(ctx sdk.Ctx) sdk.BigInt { return sdk.ZeroInt() }
func (k rwKeepers) TotalTokens(ctx sdk.Ctx) sdk.BigInt     { return sdk.ZeroInt() }
func (k rwKeepers) JailApplication(ctx sdk.Ctx, addr sdk.Address) {}
func (k rwKeepers) AllApplications(ctx sdk.Ctx) []appexported.ApplicationI { return nil }

func rwStore() *CacheStorage {
	return &CacheStorage{Cache: sdk.NewCache(100), DB: modelkv.NewDB(), SealMap: &sync.Map{}}
}

type rwWorld struct {
	k      rwKeepers
	node   *PocketNode
	hb     *HostedBlockchains
	header SessionHeader
}

// rwNew: application A1 staked for chain 0001 with `maxPerNode` relays per session node; this node
// (D1) hosts chain 0001 and is (or is not) one of the session's nodes; the session for
// (A1, 0001, height 5) is already cached, as after a dispatch.
func rwNew(maxPerNode int64, inSession bool) *rwWorld {
	w := &rwWorld{}
	w.k = rwKeepers{app: rwApp{pub: rwA1, chains: []string{"0001"}, max: maxPerNode * 2}, nodeCount: 2}
	w.node = &PocketNode{PrivateKey: rwPriv{pub: rwD1}, EvidenceStore: rwStore(), SessionStore: rwStore()}
	w.hb = &HostedBlockchains{M: map[string]HostedBlockchain{"0001": {ID: "0001", URL: "http://localhost"}}}
	w.header = SessionHeader{ApplicationPubKey: rwA1, Chain: "0001", SessionBlockHeight: 5}
	nodes := SessionNodes{rwAddr(rwD2), rwAddr(rwC1)}
	if inSession {
		nodes[1] = rwAddr(rwD1)
	}
	SetSession(Session{SessionHeader: w.header, SessionKey: SessionKey("k"), SessionNodes: nodes}, w.node.SessionStore)
	return w
}

// rwRelay: a well-formed relay for the world's session with the given entropy and payload.
func rwRelay(entropy int64, data string) Relay {
	r := Relay{
		Payload: Payload{Data: data, Method: "POST", Path: "/"},
		Meta:    RelayMeta{BlockHeight: 6},
		Proof: RelayProof{Entropy: entropy, SessionBlockHeight: 5, ServicerPubKey: rwD1, Blockchain: "0001", Signature: rwG1,
			Token: AAT{Version: "0.0.1", ApplicationPublicKey: rwA1, ClientPublicKey: rwC1, ApplicationSignature: rwS1}},
	}
	r.Proof.RequestHash = r.RequestHashString()
	return r
}

var _ = v.Assert
