//verif:dir x/apps/keeper
//verif:for C20,C28,C13
//go:build !verifnative

package keeper

import "github.com/pokt-network/pocket-core/codec"

func verifCodec() *codec.Codec { return codec.NewCodec(nil) }
