//verif:dir x/pocketcore/types
//verif:for C34,C35
//go:build verifnative

package types

import "github.com/tendermint/tendermint/libs/log"

// rwInit: natively the service metrics object must exist (a node creates it at start-up).
func rwInit() {
	if globalServiceMetrics == nil {
		globalServiceMetrics = NewServiceMetrics(&HostedBlockchains{M: map[string]HostedBlockchain{"0001": {ID: "0001", URL: "http://localhost"}}}, log.NewNopLogger())
	}
}
