//verif:dir x/nodes/keeper
//verif:for C19,C21,C22,C23,C24,C25,C18,C12,C26,C27,C14
//go:build verifnative

package keeper

import "github.com/pokt-network/pocket-core/codec"

// native: the real codec as the package's tests build it
func verifCodec() *codec.Codec { return makeTestCodec() }
