//verif:dir store/rootmulti
//verif:for C04,C06,C07,C08,C09
package rootmulti

import (
	"bytes"

	"github.com/pokt-network/pocket-core/store/types"
	sdk "github.com/pokt-network/pocket-core/types"
	v "github.com/pokt-network/pocket-core/verifrt"
	"github.com/pokt-network/pocket-core/verifrt/modelkv"
	dbm "github.com/tendermint/tm-db"
)

// Shared world of the multistore harnesses: a REAL rootmulti.Store with two REAL IAVL substores
// ("a", "b") and a transient store ("t") over the model DB. A block is a short list of writes.

var (
	mwA = sdk.NewKVStoreKey("a")
	mwB = sdk.NewKVStoreKey("b")
	mwT = sdk.NewTransientStoreKey("t")
)

func mwOpen(db dbm.DB) (*Store, error) {
	rs := NewStore(db, false, 0)
	rs.MountStoreWithDB(mwA, types.StoreTypeIAVL, nil)
	rs.MountStoreWithDB(mwB, types.StoreTypeIAVL, nil)
	rs.MountStoreWithDB(mwT, types.StoreTypeTransient, nil)
	return rs, rs.LoadLatestVersion()
}

func mwMustOpen(db dbm.DB) *Store {
	rs, err := mwOpen(db)
	if err != nil {
		panic(err)
	}
	return rs
}

// mwOp is one write of a block: to store a or b, set or delete, 1-byte key, 1-byte value.
type mwOp struct {
	toB, del bool
	k, val   []byte
}

// mwBlock draws n arbitrary writes.
func mwBlock(n int) []mwOp {
	ops := make([]mwOp, n)
	for i := range ops {
		ops[i] = mwOp{toB: v.Choice(2) == 1, del: v.Choice(2) == 1, k: v.Bytes(1), val: v.Bytes(1)}
	}
	return ops
}

// mwBlockFrom draws n arbitrary writes whose keys come from a concrete set (arbitrary values):
// used where several writes per block would otherwise multiply the tree-shape case splits.
func mwBlockFrom(n int, keys [][]byte) []mwOp {
	ops := make([]mwOp, n)
	for i := range ops {
		ops[i] = mwOp{toB: v.Choice(2) == 1, del: v.Choice(2) == 1, k: keys[v.Choice(len(keys))], val: v.Bytes(1)}
	}
	return ops
}

func mwApply(rs *Store, ops []mwOp) {
	for _, o := range ops {
		st := rs.GetKVStore(mwA)
		if o.toB {
			st = rs.GetKVStore(mwB)
		}
		if o.del {
			_ = st.Delete(o.k)
		} else {
			_ = st.Set(o.k, o.val)
		}
	}
}

// mwRef is the reference model of the two persistent stores: plain sorted maps that the same
// writes are applied to. (The stores' own iterators run on goroutines, which the engine does not
// execute, so contents are compared pointwise: at every written key and at an arbitrary key.)
type mwRef struct{ a, b *modelkv.Store }

func mwNewRef() mwRef { return mwRef{modelkv.New(), modelkv.New()} }

func (r mwRef) apply(ops []mwOp) {
	for _, o := range ops {
		st := r.a
		if o.toB {
			st = r.b
		}
		if o.del {
			st.DeleteRaw(o.k)
		} else {
			st.SetRaw(o.k, o.val)
		}
	}
}

func (r mwRef) clone() mwRef {
	n := mwNewRef()
	for _, kv := range r.a.Snapshot() {
		n.a.SetRaw(kv.K, kv.V)
	}
	for _, kv := range r.b.Snapshot() {
		n.b.SetRaw(kv.K, kv.V)
	}
	return n
}

type mwGetter interface {
	Get(key []byte) ([]byte, error)
}

// mwAgrees: the two stores agree with the reference at an ARBITRARY key (a fresh symbolic byte,
// so for every 1-byte key — all keys the harness blocks write are 1-byte keys).
func mwAgrees(a, b mwGetter, ref mwRef) bool { return mwAgreesAt(a, b, ref, v.Bytes(1)) }

// mwAgreesAt: the same comparison at a given probe key (one arbitrary key shared by several
// comparisons keeps the number of key-order case splits down).
func mwAgreesAt(a, b mwGetter, ref mwRef, probe []byte) bool {
	ok := true
	for _, p := range [][]byte{probe} {
		ga, _ := a.Get(p)
		gb, _ := b.Get(p)
		ok = v.And(ok, v.And(mwBytesEq(ga, ref.a.GetRaw(p)), mwBytesEq(gb, ref.b.GetRaw(p))))
	}
	return ok
}

func mwBytesEq(x, y []byte) bool {
	if (x == nil) != (y == nil) {
		return false
	}
	return bytes.Equal(x, y)
}

func mwStoreAgrees(rs *Store, ref mwRef) bool {
	return mwAgrees(rs.GetKVStore(mwA), rs.GetKVStore(mwB), ref)
}
