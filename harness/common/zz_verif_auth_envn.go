//verif:dir x/auth
//verif:for C14,C15,C16
//go:build verifnative

package auth

import (
	"github.com/pokt-network/pocket-core/codec"
	"github.com/pokt-network/pocket-core/x/auth/types"
	"github.com/tendermint/tendermint/state/txindex"
)

type tmIndexer = txindex.TxIndexer

func verifCodec() *codec.Codec { return types.ModuleCdc }
