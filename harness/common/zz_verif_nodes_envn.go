//verif:dir x/nodes/keeper
//verif:for C19,C21,C22,C23,C24,C25,C18,C12,C26,C27,C14
//go:build verifnative

package keeper

import (
	"github.com/pokt-network/pocket-core/codec"
	types2 "github.com/pokt-network/pocket-core/codec/types"
	"github.com/pokt-network/pocket-core/crypto"
	sdk "github.com/pokt-network/pocket-core/types"
	"github.com/pokt-network/pocket-core/x/auth"
	"github.com/pokt-network/pocket-core/x/gov"
)

// native: the real codec, registered as the package's tests register it (makeTestCodec); kept in
// a non-test file so that harnesses of dependant packages (x/nodes) can be replayed natively too.
func verifCodec() *codec.Codec {
	cdc := codec.NewCodec(types2.NewInterfaceRegistry())
	auth.RegisterCodec(cdc)
	gov.RegisterCodec(cdc)
	sdk.RegisterCodec(cdc)
	crypto.RegisterAmino(cdc.AminoCodec().Amino)
	return cdc
}
