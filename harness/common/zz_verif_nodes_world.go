//verif:dir x/nodes/keeper
//verif:for C19,C21,C22,C23,C24,C25,C18,C12,C26,C27,C14
package keeper

import (
	"bytes"
	"encoding/hex"
	"math/big"
	"time"

	"github.com/pokt-network/pocket-core/codec"
	"github.com/pokt-network/pocket-core/crypto"
	sdk "github.com/pokt-network/pocket-core/types"
	"github.com/pokt-network/pocket-core/x/auth"
	authKeeper "github.com/pokt-network/pocket-core/x/auth/keeper"
	authTypes "github.com/pokt-network/pocket-core/x/auth/types"
	"github.com/pokt-network/pocket-core/x/nodes/types"
	v "github.com/pokt-network/pocket-core/verifrt"
	"github.com/pokt-network/pocket-core/verifrt/vworld"
)

// ---- the harness world for the node-staking keeper: the real nodes keeper over the real bank
// (x/auth keeper), both over model KV stores; harness-chosen height, time, parameters. ----

const nwMaxTokens = "1000000000000000" // 10^15 uPOKT

var nwChains = []string{"0001", "0021"}

type nwPocket struct{ cleared int }

func (p *nwPocket) ClearSessionCache() { p.cleared++ }

type nworld struct {
	k      Keeper
	ak     authKeeper.Keeper
	ctx    *vworld.Ctx
	pocket *nwPocket
	pks    []crypto.Ed25519PublicKey
	addrs  []sdk.Address // operator addresses of pks
	out    sdk.Address   // the one custodial output address used by the harnesses
	params types.Params
}

func nwKey(b byte) crypto.Ed25519PublicKey {
	var pk crypto.Ed25519PublicKey
	for i := range pk {
		pk[i] = b
	}
	return pk
}

// nwActivateAll makes every protocol feature active from height 1 (the current network regime);
// legacy=true leaves every feature inactive (the pre-upgrade regime replayed from genesis).
//
// Stake-weighted reward scaling (RSCAL) is left OFF unless the harness turns it on: it runs a
// fixed-point Newton iteration (FracPow) over the stake, which is outside SMT reach for a symbolic
// stake and is covered on its own by C27; it changes only the minted amount, not the bookkeeping.
func nwActivateAll(legacy bool) {
	codec.UpgradeFeatureMap = map[string]int64{}
	if legacy {
		codec.TestMode = 0
		return
	}
	codec.TestMode = -3
	for _, key := range []string{codec.NonCustodialUpdateKey, codec.EnforceMaxChainsUpdateKey, codec.TxCacheEnhancementKey,
		codec.MaxRelayProtKey, codec.ReplayBurnKey, codec.BlockSizeModifyKey, codec.VEDITKey,
		codec.OutputAddressEditKey, codec.ClearUnjailedValSessionKey, codec.PerChainRTTM, codec.AppTransferKey, codec.RewardDelegatorsKey} {
		codec.UpgradeFeatureMap[key] = 1
	}
}

func nwNew(legacy bool) *nworld {
	nwActivateAll(legacy)
	w := &nworld{pocket: &nwPocket{}}
	w.ctx = vworld.New(v.Int64In(40000, 1000000))
	w.ctx.Time = time.Unix(v.Int64In(1000000, 2000000000), 0).UTC()
	cdc := verifCodec()
	perms := map[string][]string{
		auth.FeeCollectorName: nil,
		types.StakedPoolName:  {auth.Burner, auth.Staking, auth.Minter},
		"dao":                 {auth.Burner, auth.Staking},
	}
	w.ak = authKeeper.NewKeeper(cdc, sdk.NewKVStoreKey(authTypes.StoreKey), sdk.NewSubspace(auth.DefaultParamspace), perms)
	w.k = NewKeeper(cdc, sdk.NewKVStoreKey(types.StoreKey), w.ak, sdk.NewSubspace(DefaultParamspace), "pos")
	w.k.PocketKeeper = w.pocket
	for _, b := range []byte{0x11, 0x22, 0x33} {
		pk := nwKey(b)
		w.pks = append(w.pks, pk)
		w.addrs = append(w.addrs, sdk.Address(pk.Address()))
	}
	w.out = sdk.Address([]byte("output-address-00000"))
	p := types.DefaultParams()
	p.StakeMinimum = v.Int64In(1, 1000000000000)
	p.MaximumChains = 2
	p.ServicerStakeFloorMultiplier = 15000000000
	p.ServicerStakeWeightCeiling = 60000000000
	p.ServicerStakeWeightMultiplier = sdk.NewDec(1)
	p.ServicerStakeFloorMultiplierExponent = sdk.NewDec(1)
	w.setParams(p)
	ap := authTypes.DefaultParams()
	if v.Native() {
		w.ak.SetParams(w.ctx, ap)
	} else {
		v.Param(string(authTypes.KeyMaxMemoCharacters), ap.MaxMemoCharacters)
		v.Param(string(authTypes.KeyTxSigLimit), ap.TxSigLimit)
		v.Param(string(authTypes.KeyFeeMultiplier), ap.FeeMultiplier)
	}
	w.ak.SetSupply(w.ctx, authTypes.NewSupply(sdk.NewCoins()))
	return w
}

func (w *nworld) setParams(p types.Params) {
	w.params = p
	if v.Native() {
		w.k.SetParams(w.ctx, p)
		return
	}
	v.Param(string(types.KeyUnstakingTime), p.UnstakingTime)
	v.Param(string(types.KeyMaxValidators), p.MaxValidators)
	v.Param(string(types.KeyStakeDenom), p.StakeDenom)
	v.Param(string(types.KeyStakeMinimum), p.StakeMinimum)
	v.Param(string(types.KeyMaxEvidenceAge), p.MaxEvidenceAge)
	v.Param(string(types.KeySignedBlocksWindow), p.SignedBlocksWindow)
	v.Param(string(types.KeyMinSignedPerWindow), p.MinSignedPerWindow)
	v.Param(string(types.KeyDowntimeJailDuration), p.DowntimeJailDuration)
	v.Param(string(types.KeySlashFractionDoubleSign), p.SlashFractionDoubleSign)
	v.Param(string(types.KeySlashFractionDowntime), p.SlashFractionDowntime)
	v.Param(string(types.KeyRelaysToTokensMultiplier), p.RelaysToTokensMultiplier)
	v.Param(string(types.KeyRelaysToTokensMultiplierMap), p.RelaysToTokensMultiplierMap)
	v.Param(string(types.KeySessionBlock), p.SessionBlockFrequency)
	v.Param(string(types.KeyDAOAllocation), p.DAOAllocation)
	v.Param(string(types.KeyProposerAllocation), p.ProposerAllocation)
	v.Param(string(types.KeyMaxChains), p.MaximumChains)
	v.Param(string(types.KeyMaxJailedBlocks), p.MaxJailedBlocks)
	v.Param(string(types.KeyServicerStakeFloorMultiplier), p.ServicerStakeFloorMultiplier)
	v.Param(string(types.KeyServicerStakeWeightMultiplier), p.ServicerStakeWeightMultiplier)
	v.Param(string(types.KeyServicerStakeWeightCeiling), p.ServicerStakeWeightCeiling)
	v.Param(string(types.KeyServicerStakeFloorMultiplierExponent), p.ServicerStakeFloorMultiplierExponent)
}

func nwCoins(x *big.Int) sdk.Coins {
	return sdk.NewCoins(sdk.NewCoin(sdk.DefaultStakeDenom, sdk.NewIntFromBigInt(x)))
}

// fund gives addr an arbitrary balance (and accounts for it in the supply).
func (w *nworld) fund(addr sdk.Address) *big.Int {
	amt := v.BigIn("0", nwMaxTokens)
	w.credit(addr, amt)
	return amt
}

func (w *nworld) credit(addr sdk.Address, amt *big.Int) {
	acc := authTypes.NewBaseAccountWithAddress(addr)
	if old := w.ak.GetAccount(w.ctx, addr); old != nil {
		amt = new(big.Int).Add(amt, old.GetCoins().AmountOf(sdk.DefaultStakeDenom).BigInt())
	}
	_ = acc.SetCoins(nwCoins(amt))
	w.ak.SetAccount(w.ctx, &acc)
	w.bumpSupply(amt)
}

func (w *nworld) bumpSupply(amt *big.Int) {
	s := w.ak.GetSupply(w.ctx)
	w.ak.SetSupply(w.ctx, s.Inflate(nwCoins(amt)))
}

func (w *nworld) creditPool(amt *big.Int) {
	pool := w.ak.GetModuleAccount(w.ctx, types.StakedPoolName)
	cur := pool.GetCoins().AmountOf(sdk.DefaultStakeDenom).BigInt()
	_ = pool.SetCoins(nwCoins(new(big.Int).Add(cur, amt)))
	w.ak.SetModuleAccount(w.ctx, pool)
	w.bumpSupply(amt)
}

func (w *nworld) bal(addr sdk.Address) *big.Int {
	return w.ak.GetCoins(w.ctx, addr).AmountOf(sdk.DefaultStakeDenom).BigInt()
}

func (w *nworld) pool() *big.Int { return w.k.GetStakedTokens(w.ctx).BigInt() }

func (w *nworld) store() sdk.KVStore { return w.ctx.KVStore(w.k.storeKey) }

// nwArbitraryValidator: record i with arbitrary status / jailed flag / stake / output address /
// chains / completion time.
func (w *nworld) arbitraryValidator(i int) types.Validator {
	val := types.Validator{Address: w.addrs[i], PublicKey: w.pks[i], ServiceURL: "https://node:443"}
	val.Status = []sdk.StakeStatus{sdk.Staked, sdk.Unstaking, sdk.Unstaked}[v.Choice(3)]
	val.Jailed = v.Choice(2) == 1
	if val.Status == sdk.Unstaked {
		val.StakedTokens = sdk.ZeroInt()
	} else {
		val.StakedTokens = sdk.NewIntFromBigInt(v.BigIn("1", nwMaxTokens))
	}
	if v.Tier() > 0 {
		if v.Choice(2) == 1 {
			val.OutputAddress = w.out
		}
	} else {
		val.OutputAddress = w.out // quick: custodial output address always set
	}
	if v.Choice(2) == 0 {
		val.Chains = []string{nwChains[1]}
	} else {
		val.Chains = []string{nwChains[0], nwChains[1]}
	}
	if val.Status == sdk.Unstaking {
		val.UnstakingCompletionTime = time.Unix(v.Int64In(1000000, 2000000000), 0).UTC()
	}
	return val
}

// install writes a validator and all its index entries directly into the store, so that the
// representation invariant holds by construction (it is also asserted), and backs its stake in
// the staking pool.
func (w *nworld) install(val types.Validator) {
	st := w.store()
	bz, err := w.k.MarshalValidator(w.ctx, val)
	v.Assert(err == nil, "install-marshal")
	_ = st.Set(types.KeyForValByAllVals(val.Address), bz)
	if val.IsStaked() {
		if !val.Jailed {
			_ = st.Set(types.KeyForValidatorInStakingSet(val), val.Address)
		}
		for _, c := range val.Chains {
			cb, _ := hex.DecodeString(c)
			_ = st.Set(types.KeyForValidatorByNetworkID(val.Address, cb), []byte{})
		}
	}
	if val.IsUnstaking() {
		q := w.k.getUnstakingValidators(w.ctx, val.UnstakingCompletionTime)
		w.k.setUnstakingValidators(w.ctx, val.UnstakingCompletionTime, append(q, val.Address))
	}
	if !val.IsUnstaked() {
		w.creditPool(val.StakedTokens.BigInt())
	}
	w.k.SetValidatorSigningInfo(w.ctx, val.Address, types.ValidatorSigningInfo{Address: val.Address, StartHeight: 1, JailedUntil: time.Unix(0, 0)})
}

// checkPool is property C19: pool balance = sum of tokens of staked and unstaking records.
func (w *nworld) checkPool(label string) {
	sum := new(big.Int)
	for _, val := range w.k.GetAllValidators(w.ctx) {
		if val.IsStaked() || val.IsUnstaking() {
			sum = new(big.Int).Add(sum, val.StakedTokens.BigInt())
		}
	}
	v.Assert(w.pool().Cmp(sum) == 0, label)
}

func nwHas(st sdk.KVStore, key []byte) bool {
	bz, _ := st.Get(key)
	return bz != nil
}

func nwCount(st sdk.KVStore, prefix []byte) int {
	it, _ := sdk.KVStorePrefixIterator(st, prefix)
	n := 0
	for ; it.Valid(); it.Next() {
		n++
	}
	it.Close()
	return n
}

// checkIndexes is property C21.
func (w *nworld) checkIndexes(label string) {
	st := w.store()
	vals := w.k.GetAllValidators(w.ctx)
	nStaking, nChain, nQueued := 0, 0, 0
	for _, val := range vals {
		inSet := nwHas(st, types.KeyForValidatorInStakingSet(val))
		want := val.IsStaked() && !val.Jailed
		v.Assert(inSet == want, label+"-power-index-iff-staked-unjailed")
		if want {
			nStaking++
			got, _ := st.Get(types.KeyForValidatorInStakingSet(val))
			v.Assert(bytes.Equal(got, val.Address), label+"-power-index-points-to-node")
		}
		for _, c := range nwChains {
			cb, _ := hex.DecodeString(c)
			has := nwHas(st, types.KeyForValidatorByNetworkID(val.Address, cb))
			wantC := val.IsStaked() && val.HasChain(c)
			v.Assert(has == wantC, label+"-chain-index-iff-staked-and-declared")
			if wantC {
				nChain++
			}
		}
		queued := false
		if val.IsUnstaking() {
			for _, a := range w.k.getUnstakingValidators(w.ctx, val.UnstakingCompletionTime) {
				if a.Equals(val.Address) {
					queued = true
				}
			}
			v.Assert(queued, label+"-unstaking-node-is-queued-at-its-time")
			nQueued++
		}
	}
	// no entry without a matching record
	v.Assert(nwCount(st, types.StakedValidatorsKey) == nStaking, label+"-no-stray-power-entry")
	v.Assert(nwCount(st, types.StakedValidatorsByNetIDKey) == nChain, label+"-no-stray-chain-entry")
	it, _ := sdk.KVStorePrefixIterator(st, types.UnstakingValidatorsKey)
	for ; it.Valid(); it.Next() {
		var addrs sdk.Addresses
		_ = w.k.Cdc.UnmarshalBinaryLengthPrefixed(it.Value(), &addrs, w.ctx.BlockHeight())
		for _, a := range addrs {
			val, found := w.k.GetValidator(w.ctx, a)
			v.Assert(found, label+"-queue-entry-has-record")
			if found {
				v.Assert(val.IsUnstaking(), label+"-queue-entry-is-unstaking")
				v.Assert(bytes.Equal(it.Key(), types.KeyForUnstakingValidators(val.UnstakingCompletionTime)), label+"-queue-entry-under-its-time")
			}
		}
	}
	it.Close()
}

// c19step performs one arbitrary state-changing operation of the node-staking module on world w
// (two installed validator records 0 and 1; address 2 has no record).
func c19step(w *nworld) {
	i := v.Choice(2)
	addr := w.addrs[i]
	val, found := w.k.GetValidator(w.ctx, addr)
	switch v.Choice(10) {
	case 0: // stake (new node on address 2, or edit-stake / restake of record i), as handleStake does
		j := []int{i, 2}[v.Choice(2)]
		nv := types.Validator{Address: w.addrs[j], PublicKey: w.pks[j], Status: sdk.Staked, ServiceURL: "https://edited:443",
			Chains: []string{nwChains[v.Choice(2)]}, StakedTokens: sdk.ZeroInt(), OutputAddress: w.out}
		amount := sdk.NewIntFromBigInt(v.BigIn("0", nwMaxTokens))
		signer := w.pks[j]
		if err := w.k.ValidateValidatorStaking(w.ctx, nv, amount, sdk.Address(signer.Address())); err == nil {
			v.Reach("stake-accepted")
			_ = w.k.StakeValidator(w.ctx, nv, amount, signer)
		}
	case 1: // begin unstaking, as ReleaseWaitingValidators does at the session boundary
		if found && w.k.ValidateValidatorBeginUnstaking(w.ctx, val) == nil {
			v.Reach("begin-unstake")
			w.k.BeginUnstakingValidator(w.ctx, val)
		}
	case 2: // finish unstaking
		if found && w.k.ValidateValidatorFinishUnstaking(w.ctx, val) == nil {
			v.Reach("finish-unstake")
			w.k.FinishUnstakingValidator(w.ctx, val)
			w.k.DeleteValidator(w.ctx, val.Address)
		}
	case 3: // challenge burn / simple slash of an arbitrary amount
		w.k.simpleSlash(w.ctx, addr, sdk.NewIntFromBigInt(v.BigIn("-1", nwMaxTokens)))
	case 4: // jail
		w.k.JailValidator(w.ctx, addr)
	case 5: // unjail
		w.k.UnjailValidator(w.ctx, addr)
	case 6: // forced unstake of a node below the minimum
		if found && !val.IsUnstaked() {
			_ = w.k.ForceValidatorUnstake(w.ctx, val)
		}
	case 7: // mature unstaking validators are paid out
		w.k.unstakeAllMatureValidators(w.ctx)
	case 8: // waiting validators released
		w.k.SetWaitingValidator(w.ctx, val)
		w.k.ReleaseWaitingValidators(w.ctx)
	case 9: // relay reward minted
		w.k.RewardForRelaysPerChain(w.ctx, nwChains[0], sdk.NewIntFromBigInt(v.BigIn("0", "1000000")), addr)
	}
}

// c19world: record 0 is fully arbitrary; record 1 is a plain staked or unstaking node (enough to
// expose interference between records while keeping the state space small); address 2 has no record.
func c19world() *nworld {
	w := nwNew(false)
	w.install(w.arbitraryValidator(0))
	second := types.Validator{Address: w.addrs[1], PublicKey: w.pks[1], ServiceURL: "https://node1:443", Chains: []string{nwChains[0]},
		Status: sdk.Staked, StakedTokens: sdk.NewInt(20000000000)} // concrete stake: one symbolic power key is enough
	if v.Choice(2) == 1 {
		second.Status = sdk.Unstaking
		second.UnstakingCompletionTime = time.Unix(1500000000, 0).UTC()
	}
	w.install(second)
	// balances: the staking signers hold an arbitrary amount (insufficient funds included), the
	// others a fixed one
	w.fund(w.addrs[0])
	w.fund(w.addrs[2])
	w.credit(w.addrs[1], big.NewInt(5000000))
	w.credit(w.out, big.NewInt(7000000))
	return w
}


// ---- exported handles for harnesses that live in package x/nodes (the message handlers) ----

func NwWorldForHandlers() *nworld                       { return nwNew(false) }
func (w *nworld) VK() Keeper                        { return w.k }
func (w *nworld) VCtx() *vworld.Ctx                 { return w.ctx }
func (w *nworld) VAddr(i int) sdk.Address           { return w.addrs[i] }
func (w *nworld) VFund(a sdk.Address) *big.Int      { return w.fund(a) }
func (w *nworld) VBal(a sdk.Address) *big.Int       { return w.bal(a) }
func (w *nworld) VSupply() *big.Int                 { return w.k.TotalTokens(w.ctx).BigInt() }
