//verif:dir x/pocketcore/types
//verif:for C29,C30
package types

import (
	v "github.com/pokt-network/pocket-core/verifrt"
)

// vleaf is a relay-proof stand-in: only Bytes() is used by the Merkle code.
type vleaf struct {
	Proof
	b []byte
}

func (l vleaf) Bytes() []byte { return l.b }

// vmerkleLeaves returns n leaves with arbitrary 2-byte payloads whose sums (first 8 hash bytes)
// are pairwise distinct, non-zero and far from overflow — what an ideal hash gives with
// overwhelming probability (stated assumption). sorted=true additionally assumes the leaves are
// given in increasing sum order (cuts the n! sort outcomes to one).
func vmerkleLeaves(n int, sorted bool) []Proof {
	ps := make([]Proof, n)
	sums := make([]uint64, n)
	for i := 0; i < n; i++ {
		b := v.Bytes(2)
		ps[i] = vleaf{b: b}
		sums[i] = sumFromHash(merkleHash(b))
		v.Assume(sums[i] != 0)
		v.Assume(sums[i] < 0xffffffffffffff00)
		for j := 0; j < i; j++ {
			if sorted && j == i-1 {
				v.Assume(sums[j] < sums[i])
			} else if !sorted {
				v.Assume(sums[j] != sums[i])
			}
		}
	}
	return ps
}

func vlevels(n int) int {
	l := 0
	for (1 << l) < n {
		l++
	}
	if l == 0 {
		l = 1
	}
	return l
}

func vcopy(ps []Proof) []Proof { return append([]Proof(nil), ps...) }
