//verif:dir x/auth
//verif:for C14,C15,C16
package auth

import (
	"math/big"

	"github.com/pokt-network/pocket-core/codec"
	"github.com/pokt-network/pocket-core/crypto"
	sdk "github.com/pokt-network/pocket-core/types"
	"github.com/pokt-network/pocket-core/x/auth/keeper"
	"github.com/pokt-network/pocket-core/x/auth/types"
	v "github.com/pokt-network/pocket-core/verifrt"
	"github.com/pokt-network/pocket-core/verifrt/vworld"
	tmtypes "github.com/tendermint/tendermint/types"
)

// harness world for the ante handler: real auth keeper/bank over model stores, stub POS/app
// keepers and tx indexer, a stub message, ideal signatures.

type awMsg struct {
	sdk.ProtoMsg
	signers []sdk.Address
}

func (m awMsg) Route() string            { return "verif" }
func (m awMsg) Type() string             { return "verif_msg" }
func (m awMsg) ValidateBasic() sdk.Error { return nil }
func (m awMsg) GetSignBytes() []byte     { return []byte("verif-msg-sign-bytes") }
func (m awMsg) GetSigners() []sdk.Address { return m.signers }
func (m awMsg) GetRecipient() sdk.Address { return nil }
func (m awMsg) GetFee() sdk.BigInt        { return sdk.NewInt(10000) }

type awPos struct{ out sdk.Address }

func (p awPos) GetMsgStakeOutputSigner(sdk.Ctx, sdk.Msg) sdk.Address { return p.out }

type awApp struct{ transfer bool }

func (a awApp) IsMsgAppTransfer(sdk.Ctx, sdk.Address, sdk.Msg) bool { return a.transfer }

type awIndexer struct {
	tmIndexer
	seen bool
}

func (ix awIndexer) Get(hash []byte) (*tmtypes.TxResult, error) {
	if ix.seen {
		return &tmtypes.TxResult{}, nil
	}
	return nil, nil
}

type authWorld struct {
	k       keeper.Keeper
	ctx     *vworld.Ctx
	keys    []crypto.Ed25519PublicKey // A (declared signer), B (unrelated), O (output address)
	addrs   []sdk.Address
	modern  bool
	outSet  bool
	xfer    bool
	params  types.Params
}

func awKey(b byte) crypto.Ed25519PublicKey {
	var pk crypto.Ed25519PublicKey
	for i := range pk {
		pk[i] = b
	}
	return pk
}

func authWorldNew() *authWorld {
	w := &authWorld{modern: v.Choice(2) == 1}
	codec.UpgradeFeatureMap = map[string]int64{}
	codec.TestMode = -1
	if w.modern {
		codec.TestMode = -3
		for _, key := range []string{codec.NonCustodialUpdateKey, codec.OutputAddressEditKey, codec.AppTransferKey, codec.RewardDelegatorsKey} {
			codec.UpgradeFeatureMap[key] = 1
		}
	}
	w.ctx = vworld.New(v.Int64In(30300, 30400)) // the range includes the chain-halt height 30334
	w.ctx.Chain = "this-chain"
	cdc := verifCodec()
	w.k = keeper.NewKeeper(cdc, sdk.NewKVStoreKey(types.StoreKey), sdk.NewSubspace(DefaultParamspace), map[string][]string{types.FeeCollectorName: nil})
	for _, b := range []byte{0xA1, 0xB2, 0xC3} {
		pk := awKey(b)
		w.keys = append(w.keys, pk)
		w.addrs = append(w.addrs, sdk.Address(pk.Address()))
	}
	w.outSet = v.Choice(2) == 1
	w.xfer = v.Choice(2) == 1
	pos := awPos{}
	if w.outSet {
		pos.out = w.addrs[2]
	}
	w.k.POSKeeper, w.k.AppKeeper = pos, awApp{w.xfer}
	w.params = types.DefaultParams()
	w.params.FeeMultiplier = types.FeeMultipliers{Default: 1}
	if v.Native() {
		w.k.SetParams(w.ctx, w.params)
	} else {
		v.Param(string(types.KeyMaxMemoCharacters), w.params.MaxMemoCharacters)
		v.Param(string(types.KeyTxSigLimit), w.params.TxSigLimit)
		v.Param(string(types.KeyFeeMultiplier), w.params.FeeMultiplier)
	}
	w.k.SetSupply(w.ctx, types.NewSupply(sdk.NewCoins()))
	return w
}

func (w *authWorld) setAccount(i int, bal *big.Int, withKey bool) {
	acc := types.NewBaseAccountWithAddress(w.addrs[i])
	if withKey {
		acc.PubKey = w.keys[i]
	}
	acc.Coins = sdk.NewCoins(sdk.NewCoin(sdk.DefaultStakeDenom, sdk.NewIntFromBigInt(bal)))
	w.k.SetAccount(w.ctx, &acc)
	w.k.SetSupply(w.ctx, w.k.GetSupply(w.ctx).Inflate(acc.Coins))
}

func (w *authWorld) bal(a sdk.Address) *big.Int {
	return w.k.GetCoins(w.ctx, a).AmountOf(sdk.DefaultStakeDenom).BigInt()
}

func bigInt(x int64) *big.Int { return big.NewInt(x) }
