//verif:dir x/apps/keeper
//verif:for C20,C28,C13
package keeper

import (
	"math/big"
	"time"

	"github.com/pokt-network/pocket-core/codec"
	"github.com/pokt-network/pocket-core/crypto"
	sdk "github.com/pokt-network/pocket-core/types"
	"github.com/pokt-network/pocket-core/x/apps/types"
	"github.com/pokt-network/pocket-core/x/auth"
	authKeeper "github.com/pokt-network/pocket-core/x/auth/keeper"
	authTypes "github.com/pokt-network/pocket-core/x/auth/types"
	v "github.com/pokt-network/pocket-core/verifrt"
	"github.com/pokt-network/pocket-core/verifrt/vworld"
)

// harness world for the application-staking keeper: real x/apps keeper over the real bank over
// model KV stores; stub POS and pocket keepers.

const awMaxTokens = "1000000000000000" // 10^15 uPOKT

type awPocket struct{}

func (awPocket) ClearSessionCache() {}

type awPos struct {
	types.PosKeeper
	staked sdk.BigInt
}

func (p awPos) GetStakedTokens(ctx sdk.Ctx) sdk.BigInt { return p.staked }
func (p awPos) StakeDenom(ctx sdk.Ctx) string           { return sdk.DefaultStakeDenom }

type aworld struct {
	k      Keeper
	ak     authKeeper.Keeper
	ctx    *vworld.Ctx
	pks    []crypto.Ed25519PublicKey
	addrs  []sdk.Address
	params types.Params
}

func awKey(b byte) crypto.Ed25519PublicKey {
	var pk crypto.Ed25519PublicKey
	for i := range pk {
		pk[i] = b
	}
	return pk
}

func awNew() *aworld {
	codec.UpgradeFeatureMap = map[string]int64{}
	codec.TestMode = -3
	for _, key := range []string{codec.NonCustodialUpdateKey, codec.EnforceMaxChainsUpdateKey, codec.AppTransferKey, codec.RewardDelegatorsKey} {
		codec.UpgradeFeatureMap[key] = 1
	}
	w := &aworld{}
	w.ctx = vworld.New(v.Int64In(40000, 1000000))
	w.ctx.Time = time.Unix(v.Int64In(1000000, 2000000000), 0).UTC()
	cdc := verifCodec()
	perms := map[string][]string{
		auth.FeeCollectorName: nil,
		types.StakedPoolName:  {auth.Burner, auth.Staking, auth.Minter},
	}
	w.ak = authKeeper.NewKeeper(cdc, sdk.NewKVStoreKey(authTypes.StoreKey), sdk.NewSubspace(auth.DefaultParamspace), perms)
	w.k = NewKeeper(cdc, sdk.NewKVStoreKey(types.StoreKey), awPos{staked: sdk.NewInt(1000000000)}, w.ak, awPocket{}, sdk.NewSubspace(DefaultParamspace), "application")
	for _, b := range []byte{0x41, 0x52, 0x63} {
		pk := awKey(b)
		w.pks = append(w.pks, pk)
		w.addrs = append(w.addrs, sdk.Address(pk.Address()))
	}
	p := types.DefaultParams()
	p.AppStakeMin = v.Int64In(1, 1000000000000)
	p.MaxApplications = v.Int64In(1, 3)
	p.MaxChains = 2
	p.ParticipationRateOn = false
	w.setParams(p)
	w.ak.SetSupply(w.ctx, authTypes.NewSupply(sdk.NewCoins()))
	return w
}

func (w *aworld) setParams(p types.Params) {
	w.params = p
	if v.Native() {
		w.k.SetParams(w.ctx, p)
		return
	}
	v.Param(string(types.KeyUnstakingTime), p.UnstakingTime)
	v.Param(string(types.KeyMaxApplications), p.MaxApplications)
	v.Param(string(types.KeyApplicationMinStake), p.AppStakeMin)
	v.Param(string(types.BaseRelaysPerPOKT), p.BaseRelaysPerPOKT)
	v.Param(string(types.StabilityAdjustment), p.StabilityAdjustment)
	v.Param(string(types.ParticipationRateOn), p.ParticipationRateOn)
	v.Param(string(types.KeyMaximumChains), p.MaxChains)
}

func awCoins(x *big.Int) sdk.Coins {
	return sdk.NewCoins(sdk.NewCoin(sdk.DefaultStakeDenom, sdk.NewIntFromBigInt(x)))
}

func (w *aworld) credit(addr sdk.Address, amt *big.Int) {
	acc := authTypes.NewBaseAccountWithAddress(addr)
	if old := w.ak.GetAccount(w.ctx, addr); old != nil {
		amt = new(big.Int).Add(amt, old.GetCoins().AmountOf(sdk.DefaultStakeDenom).BigInt())
	}
	_ = acc.SetCoins(awCoins(amt))
	w.ak.SetAccount(w.ctx, &acc)
	w.ak.SetSupply(w.ctx, w.ak.GetSupply(w.ctx).Inflate(awCoins(amt)))
}

func (w *aworld) fund(addr sdk.Address) *big.Int {
	amt := v.BigIn("0", awMaxTokens)
	w.credit(addr, amt)
	return amt
}

func (w *aworld) creditPool(amt *big.Int) {
	pool := w.ak.GetModuleAccount(w.ctx, types.StakedPoolName)
	cur := pool.GetCoins().AmountOf(sdk.DefaultStakeDenom).BigInt()
	_ = pool.SetCoins(awCoins(new(big.Int).Add(cur, amt)))
	w.ak.SetModuleAccount(w.ctx, pool)
	w.ak.SetSupply(w.ctx, w.ak.GetSupply(w.ctx).Inflate(awCoins(amt)))
}

func (w *aworld) bal(addr sdk.Address) *big.Int {
	return w.ak.GetCoins(w.ctx, addr).AmountOf(sdk.DefaultStakeDenom).BigInt()
}
func (w *aworld) pool() *big.Int { return w.k.GetStakedTokens(w.ctx).BigInt() }

func (w *aworld) arbitraryApp(i int) types.Application {
	app := types.Application{Address: w.addrs[i], PublicKey: w.pks[i], Chains: []string{"0001"}, MaxRelays: sdk.NewInt(100)}
	app.Status = []sdk.StakeStatus{sdk.Staked, sdk.Unstaking, sdk.Unstaked}[v.Choice(3)]
	app.Jailed = v.Choice(2) == 1
	if app.Status == sdk.Unstaked {
		app.StakedTokens = sdk.ZeroInt()
	} else {
		app.StakedTokens = sdk.NewIntFromBigInt(v.BigIn("1", awMaxTokens))
	}
	if app.Status == sdk.Unstaking {
		app.UnstakingCompletionTime = time.Unix(v.Int64In(1000000, 2000000000), 0).UTC()
	}
	return app
}

// install writes the record and its index entries directly and backs the stake in the pool.
func (w *aworld) install(app types.Application) {
	st := w.ctx.KVStore(w.k.storeKey)
	bz, err := types.MarshalApplication(w.k.Cdc, w.ctx, app)
	v.Assert(err == nil, "install-marshal")
	_ = st.Set(types.KeyForAppByAllApps(app.Address), bz)
	if app.IsStaked() && !app.Jailed {
		_ = st.Set(types.KeyForAppInStakingSet(app), app.Address)
	}
	if app.IsUnstaking() {
		q := w.k.getUnstakingApplications(w.ctx, app.UnstakingCompletionTime)
		w.k.setUnstakingApplications(w.ctx, app.UnstakingCompletionTime, append(q, app.Address))
	}
	if !app.IsUnstaked() {
		w.creditPool(app.StakedTokens.BigInt())
	}
}

// checkPool is property C20.
func (w *aworld) checkPool(label string) {
	sum := new(big.Int)
	for _, app := range w.k.GetAllApplications(w.ctx) {
		if app.IsStaked() || app.IsUnstaking() {
			sum = new(big.Int).Add(sum, app.StakedTokens.BigInt())
		}
	}
	v.Assert(w.pool().Cmp(sum) == 0, label)
}
