//verif:dir x/nodes/keeper
package keeper

import (
	"math/big"
	"time"

	sdk "github.com/pokt-network/pocket-core/types"
	"github.com/pokt-network/pocket-core/x/nodes/types"
	v "github.com/pokt-network/pocket-core/verifrt"
)

// VerifC12unjail: the verdict on an unjail transaction is a function of chain data (stored node,
// signing info, block time, parameters) only — in particular not of the node's wall clock.
// The jail period ends in 2030 or later so that a native replay before then sees a wall clock
// earlier than the end of the period.
func VerifC12unjail() {
	w := nwNew(false)
	w.ctx.Time = time.Unix(v.Int64In(1900000000, 2000000000), 0).UTC()
	val := types.Validator{Address: w.addrs[0], PublicKey: w.pks[0], ServiceURL: "https://n0:443", Chains: []string{nwChains[0]},
		Status: sdk.Staked, Jailed: true, StakedTokens: sdk.NewInt(2000000000000)}
	w.install(val)
	until := time.Unix(v.Int64In(1900000000, 1950000000), 0).UTC()
	w.k.SetValidatorSigningInfo(w.ctx, w.addrs[0], types.ValidatorSigningInfo{Address: w.addrs[0], StartHeight: 1, JailedUntil: until})
	_, err := w.k.ValidateUnjailMessage(w.ctx, types.MsgUnjail{ValidatorAddr: w.addrs[0], Signer: w.addrs[0]})
	// everything but the timing is valid by construction: the chain-data verdict is "block time has
	// reached the end of the jail period"
	v.Assert((err == nil) == !w.ctx.Time.Before(until), "unjail-verdict-is-a-function-of-chain-data")
}

// VerifC12rewards: minting relay rewards to a servicer with reward delegators (a Go map, iterated
// in arbitrary order) leaves the same balances whatever the iteration order: every recipient ends
// with exactly its order-free share.
func VerifC12rewards() {
	w := nwNew(false)
	v.MapOrderNondet()
	n := 2 + v.Choice(2)
	dels := []sdk.Address{sdk.Address([]byte("delegator-address-01")), sdk.Address([]byte("delegator-address-02")), sdk.Address([]byte("delegator-address-03"))}
	m := map[string]uint32{}
	shares := []int64{}
	total := int64(0)
	for k := 0; k < n; k++ {
		s := v.Int64In(1, 98)
		shares = append(shares, s)
		total += s
		m[dels[k].String()] = uint32(s)
	}
	v.Assume(total <= 100) // shares may add up to exactly 100 (the delegators then own the whole reward)
	reward := v.BigIn("1", "1000000000000")
	err := SplitNodeRewards(w.ctx.Logger(), sdk.NewIntFromBigInt(reward), w.out, m, func(recipient sdk.Address, share sdk.BigInt) {
		w.k.mint(w.ctx, share, recipient)
	})
	v.Assert(err == nil, "split-ok")
	rem := new(big.Int).Set(reward)
	for k := 0; k < n; k++ {
		want := new(big.Int).Quo(new(big.Int).Mul(reward, big.NewInt(0).SetInt64(shares[k])), big.NewInt(100))
		v.Assert(w.bal(dels[k]).Cmp(want) == 0, "delegator-balance-order-free")
		rem = new(big.Int).Sub(rem, want)
	}
	v.Assert(w.bal(w.out).Cmp(rem) == 0, "output-balance-order-free")
	v.Assert(w.k.TotalTokens(w.ctx).BigInt().Cmp(reward) == 0, "supply-order-free")
	v.Assert(w.pool().Sign() == 0, "pool-order-free")
}
