//verif:dir store/iavl
package iavl

import (
	"bytes"

	v "github.com/pokt-network/pocket-core/verifrt"
	"github.com/pokt-network/pocket-core/verifrt/modelkv"
)

//verif:config VerifC05 native=no idealhash=yes maxpaths=200000
//verif:config VerifC05tamper native=no idealhash=yes maxpaths=200000

// c05tree: a committed IAVL tree (real MutableTree + node DB over the model DB) holding 1..N
// entries with keys from a small concrete set and arbitrary 1-byte values, in arbitrary insertion
// order, plus the reference map.
func c05tree(max int) (*MutableTree, []byte, *modelkv.Store) {
	tree, err := NewMutableTree(modelkv.NewUnorderedDB(), 100)
	v.Assert(err == nil, "tree-created")
	ref := modelkv.New()
	keys := [][]byte{{0x10}, {0x20}, {0x30}, {0xFF}} // (0xFF: the greatest 1-byte key)
	// an arbitrary non-empty subset of the keys (at most max of them), inserted in ascending or
	// descending order (two different tree shapes), with arbitrary values
	var chosen [][]byte
	for _, k := range keys {
		if len(chosen) < max && v.Choice(2) == 1 {
			chosen = append(chosen, k)
		}
	}
	if len(chosen) == 0 {
		chosen = append(chosen, keys[v.Choice(len(keys))])
	}
	if v.Choice(2) == 1 {
		for i, j := 0, len(chosen)-1; i < j; i, j = i+1, j-1 {
			chosen[i], chosen[j] = chosen[j], chosen[i]
		}
	}
	for _, k := range chosen {
		val := v.Bytes(1)
		tree.Set(k, val)
		ref.SetRaw(k, val)
	}
	root, ver, err := tree.SaveVersion()
	v.Assert(err == nil && ver == 1, "tree-committed")
	return tree, root, ref
}

// VerifC05: for an ARBITRARY 1-byte key, and an arbitrary 2-byte key, the committed tree returns, with the value, a proof that
// verifies against the version's root hash — an existence proof for the stored value if the key is
// present, an absence proof if not (keys before the first and after the last leaf included). And
// nothing else verifies: a different root, a different value, existence for an absent key, absence
// for a present key, or the proof with any single field of any node altered (SHA-256 idealised as
// injective).
func VerifC05() {
	tree, root, ref := c05tree(4)
	p := v.Bytes(1 + v.Choice(2)) // a 1-byte key, or a 2-byte key (never stored: it may extend a stored key)
	want := ref.GetRaw(p)
	value, proof, err := tree.GetVersionedWithProof(p, 1)
	v.Assert(err == nil && proof != nil, "proof-produced")
	v.Assert((value == nil) == (want == nil) && bytes.Equal(value, want), "query-returns-the-stored-value")
	v.Assert(proof.Verify(root) == nil, "proof-verifies-against-the-root")
	if want != nil {
		v.Assert(proof.VerifyItem(p, value) == nil, "existence-proof-accepted")
		v.Assert(proof.VerifyAbsence(p) != nil, "absence-of-a-present-key-refused")
		other := v.Bytes(1)
		v.Assert(v.Implies(!bytes.Equal(other, value), proof.VerifyItem(p, other) != nil), "another-value-refused")
	} else {
		// known defect C05-K1: the probe extends a stored key that is not the last leaf
		ext := len(p) == 2 && ref.GetRaw(p[:1]) != nil
		v.AssertK(proof.VerifyAbsence(p) == nil, "absence-proof-accepted", v.Known("C05-K1", ext))
		v.Assert(proof.VerifyItem(p, v.Bytes(1)) != nil, "existence-of-an-absent-key-refused")
	}
	// the same proof presented for ANOTHER key: it must not prove absence of a key that is stored
	// nor existence of anything at a key it was not produced for
	q := v.Bytes(1)
	if qv := ref.GetRaw(q); qv != nil {
		v.Assert(proof.VerifyAbsence(q) != nil, "proof-reused-for-a-stored-key-does-not-prove-its-absence")
	} else {
		v.Assert(proof.VerifyItem(q, v.Bytes(1)) != nil, "proof-reused-for-an-absent-key-does-not-prove-existence")
	}
}

// VerifC05tamper: the proof for an arbitrary key with the root, or any single field of any of
// its nodes, altered does not verify.
func VerifC05tamper() {
	tree, root, _ := c05tree(2 + v.Tier())
	p := v.Bytes(1)
	// a different root
	bad := append([]byte{}, root...)
	mask := v.U8()
	v.Assume(mask != 0)
	bad[v.Choice(2)*31] ^= mask
	_, fresh, _ := tree.GetVersionedWithProof(p, 1)
	v.Assert(fresh.Verify(bad) != nil, "another-root-refused")
	// one altered field of one proof node
	_, m, _ := tree.GetVersionedWithProof(p, 1)
	flip := func(b []byte) {
		if len(b) > 0 {
			b[v.Choice(2)*(len(b)-1)] ^= mask
		}
	}
	altered := true
	switch v.Choice(7) {
	case 0:
		flip(m.Leaves[v.Choice(len(m.Leaves))].ValueHash)
	case 1:
		flip(m.Leaves[v.Choice(len(m.Leaves))].Key)
	case 2:
		m.Leaves[v.Choice(len(m.Leaves))].Version += 1 + int64(mask)
	default:
		if len(m.LeftPath) == 0 {
			altered = false
			break
		}
		in := &m.LeftPath[v.Choice(len(m.LeftPath))]
		switch v.Choice(4) {
		case 0:
			if len(in.Left) > 0 {
				flip(in.Left)
			} else {
				flip(in.Right)
			}
		case 1:
			in.Size += 1 + int64(mask)
		case 2:
			in.Version += 1 + int64(mask)
		case 3:
			in.Height += 1
		}
	}
	if altered {
		v.Assert(m.Verify(root) != nil, "altered-proof-refused")
	}
}
