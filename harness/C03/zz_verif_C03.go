//verif:dir store/iavl
package iavl

import (
	"bytes"

	v "github.com/pokt-network/pocket-core/verifrt"
)

type c03kv struct{ k, v []byte }

// c03gen builds an arbitrary AVL-shaped subtree of exactly height h over fresh symbolic leaves,
// appended to *leaves in key order. Keys are 1 byte (2 in thorough for the probe key only).
func c03gen(h int, leaves *[]c03kv, ver int64) *Node {
	if h == 0 {
		k, val := v.Bytes(1), v.Bytes(1)
		if n := len(*leaves); n > 0 {
			v.Assume(bytes.Compare((*leaves)[n-1].k, k) < 0) // strictly increasing keys
		}
		*leaves = append(*leaves, c03kv{k, val})
		return &Node{key: k, value: val, height: 0, size: 1, version: ver}
	}
	hl, hr := h-1, h-1
	if h >= 2 {
		switch v.Choice(3) {
		case 1:
			hr = h - 2
		case 2:
			hl = h - 2
		}
	}
	l := c03gen(hl, leaves, ver)
	first := len(*leaves)
	r := c03gen(hr, leaves, ver)
	return &Node{key: (*leaves)[first].k, height: int8(h), size: l.size + r.size, leftNode: l, rightNode: r, version: ver}
}

// c03valid checks the representation invariant and returns (height, size, leaf sequence).
func c03valid(n *Node, out *[]c03kv, label string) (int, int64) {
	if n.leftNode == nil && n.rightNode == nil {
		v.Assert(n.height == 0, label+"-leaf-height")
		v.Assert(n.size == 1, label+"-leaf-size")
		*out = append(*out, c03kv{n.key, n.value})
		return 0, 1
	}
	v.Assert(v.And(n.leftNode != nil, n.rightNode != nil), label+"-inner-has-two-children")
	hl, sl := c03valid(n.leftNode, out, label)
	first := len(*out)
	hr, sr := c03valid(n.rightNode, out, label)
	v.Assert(bytes.Equal(n.key, (*out)[first].k), label+"-inner-key-is-least-of-right")
	h := hl
	if hr > h {
		h = hr
	}
	v.Assert(int(n.height) == h+1, label+"-height")
	v.Assert(n.size == sl+sr, label+"-size")
	d := hl - hr
	v.Assert(d >= -1 && d <= 1, label+"-balanced")
	return h + 1, sl + sr
}

type c03snap struct {
	n           *Node
	key, value  []byte
	height      int8
	size, ver   int64
	left, right *Node
}

func c03snapshot(n *Node, out *[]c03snap) {
	if n == nil {
		return
	}
	*out = append(*out, c03snap{n, n.key, n.value, n.height, n.size, n.version, n.leftNode, n.rightNode})
	c03snapshot(n.leftNode, out)
	c03snapshot(n.rightNode, out)
}

func c03seqEqual(a, b []c03kv, label string) {
	v.Assert(len(a) == len(b), label+"-len")
	if len(a) == len(b) {
		for i := range a {
			v.Assert(v.And(bytes.Equal(a[i].k, b[i].k), bytes.Equal(a[i].v, b[i].v)), label+"-item")
		}
	}
}

func c03bound() []byte {
	if v.Choice(2) == 0 {
		return nil
	}
	return v.Bytes(1)
}

// VerifC03: one inductive step — from an arbitrary valid in-memory IAVL tree, one Set or Remove
// with an arbitrary key leaves a valid tree holding exactly the model's contents, reports the
// right flags, never mutates a node of the previous tree, and the read API of the result agrees
// with the model.
func VerifC03() {
	isSet := v.Choice(2) == 0
	maxH := 2
	if v.Tier() > 0 || !isSet {
		maxH = 3 // removals need height 3 to reach every rebalancing / key-propagation case
	}
	h := v.Choice(maxH + 1)
	var leaves []c03kv
	root := c03gen(h, &leaves, 1)
	tree := &MutableTree{ImmutableTree: &ImmutableTree{root: root, version: 1}, orphans: map[string]int64{}, versions: map[int64]bool{}}
	var pre []c03snap
	c03snapshot(root, &pre)

	key := v.Bytes(1)
	var model []c03kv
	present := false
	var oldVal []byte
	for _, l := range leaves {
		if bytes.Equal(l.k, key) {
			present = true
			oldVal = l.v
		}
	}
	if isSet {
		val := v.Bytes(1)
		updated := tree.Set(key, val)
		v.Assert(updated == present, "set-updated-flag")
		done := false
		for _, l := range leaves {
			if !done && bytes.Compare(key, l.k) <= 0 {
				model = append(model, c03kv{key, val})
				done = true
				if bytes.Equal(key, l.k) {
					continue
				}
			}
			model = append(model, l)
		}
		if !done {
			model = append(model, c03kv{key, val})
		}
	} else {
		val, removed := tree.Remove(key)
		v.Assert(removed == present, "remove-flag")
		if present {
			v.Assert(bytes.Equal(val, oldVal), "remove-returns-old-value")
		}
		for _, l := range leaves {
			if !bytes.Equal(l.k, key) {
				model = append(model, l)
			}
		}
	}
	// the previous tree is untouched (copy on write)
	for _, s := range pre {
		ok := v.And(bytes.Equal(s.n.key, s.key), bytes.Equal(s.n.value, s.value))
		ok = v.And(ok, s.n.height == s.height && s.n.size == s.size && s.n.version == s.ver)
		ok = v.And(ok, s.n.leftNode == s.left && s.n.rightNode == s.right)
		v.Assert(ok, "old-nodes-untouched")
	}
	// the new tree is valid and holds the model
	var got []c03kv
	if tree.root != nil {
		c03valid(tree.root, &got, "post")
	}
	c03seqEqual(got, model, "contents")
	v.Assert(tree.Size() == int64(len(model)), "size")

	// read API against the model (one kind of probe per path)
	switch v.Choice(3) {
	case 0:
		c03probeGet(tree, model)
	case 1:
		if len(model) > 0 {
			j := v.Choice(len(model))
			k2, v2 := tree.GetByIndex(int64(j))
			v.Assert(v.And(bytes.Equal(k2, model[j].k), bytes.Equal(v2, model[j].v)), "get-by-index")
		}
	case 2:
		c03probeRange(tree, model)
	}
}

func c03probeGet(tree *MutableTree, model []c03kv) {
	probe := v.Bytes(1)
	idx, val := tree.Get(probe)
	wantIdx, wantVal := int64(len(model)), []byte(nil)
	for i := len(model) - 1; i >= 0; i-- {
		if bytes.Compare(probe, model[i].k) <= 0 {
			wantIdx = int64(i)
		}
		if bytes.Equal(probe, model[i].k) {
			wantVal = model[i].v
		}
	}
	if len(model) > 0 {
		v.Assert(idx == wantIdx, "get-index")
		v.Assert(v.And((val == nil) == (wantVal == nil), bytes.Equal(val, wantVal)), "get-value")
		v.Assert(tree.Has(probe) == (wantVal != nil), "has")
	}
}

func c03probeRange(tree *MutableTree, model []c03kv) {
	start, end := c03bound(), c03bound()
	asc := v.Choice(2) == 0
	var want []c03kv
	for _, m := range model {
		if (start == nil || bytes.Compare(start, m.k) <= 0) && (end == nil || bytes.Compare(m.k, end) < 0) {
			want = append(want, m)
		}
	}
	if !asc {
		for i, j := 0, len(want)-1; i < j; i, j = i+1, j-1 {
			want[i], want[j] = want[j], want[i]
		}
	}
	var seen []c03kv
	tree.IterateRange(start, end, asc, func(k, val []byte) bool {
		seen = append(seen, c03kv{k, val})
		return false
	})
	c03seqEqual(seen, want, "iterate-range")
}

//verif:config VerifC03balance maxpaths=200000

// VerifC03balance: the rebalancing kernel as an inductive lemma. A node whose two children are
// ARBITRARY valid AVL subtrees whose heights differ by at most two (the transient state after an
// insertion or a removal below it; the taller child has height <= 3, so all four rotation cases
// with every balance of the heavy child occur) is handed to balance(): the result is a valid AVL
// tree — balanced, correct heights, sizes and inner keys — with exactly the same leaves in order.
func VerifC03balance() {
	hbig := 1 + v.Choice(3) // 1..3
	diff := v.Choice(3)     // 0, 1 or 2
	hsmall := hbig - diff
	if hsmall < 0 {
		return
	}
	leftHeavy := v.Choice(2) == 1
	var leaves []c03kv
	var l, r *Node
	first := 0
	if leftHeavy {
		l = c03gen(hbig, &leaves, 1)
		first = len(leaves)
		r = c03gen(hsmall, &leaves, 1)
	} else {
		l = c03gen(hsmall, &leaves, 1)
		first = len(leaves)
		r = c03gen(hbig, &leaves, 1)
	}
	node := &Node{key: leaves[first].k, height: int8(hbig + 1), size: l.size + r.size, leftNode: l, rightNode: r, version: 2}
	tree := &MutableTree{ImmutableTree: &ImmutableTree{root: node, version: 1}, orphans: map[string]int64{}, versions: map[int64]bool{}}
	var orphans []*Node
	res := tree.balance(node, &orphans)
	var got []c03kv
	c03valid(res, &got, "balance")
	c03seqEqual(got, leaves, "balance-keeps-the-leaves")
}
