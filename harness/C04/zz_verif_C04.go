//verif:dir store/iavl
package iavl

import (
	"bytes"

	v "github.com/pokt-network/pocket-core/verifrt"
)

func c04int64() int64 {
	if v.Tier() > 0 {
		return v.I64()
	}
	// quick: two regimes instead of all ten varint lengths — short encodings and the longest ones
	x := v.I64()
	if v.Choice(2) == 0 {
		v.Assume(x >= -(1 << 14))
		v.Assume(x < (1 << 14))
	} else {
		v.Assume(x >= (1 << 55))
	}
	return x
}

// VerifC04node: MakeNode(writeBytes(n)) reproduces every persisted field of n, and aminoSize is
// exactly the number of bytes written, for arbitrary height/size/version (varints of every
// length in thorough, <= 3 bytes in quick), keys/values of 0..2 bytes and 32-byte child hashes.
func VerifC04node() {
	n := &Node{}
	n.size, n.version = c04int64(), c04int64()
	v.Assume(n.size >= 1) // reachable sizes and versions are positive
	v.Assume(n.version >= 0)
	n.key = v.Bytes(v.Choice(3))
	leaf := v.Choice(2) == 0
	if leaf {
		n.height = 0
		n.value = v.Bytes(v.Choice(3))
	} else {
		// reachable heights only: aminoSize counts one byte for the height, which is exact for
		// 0..63 (an AVL tree of height 64 needs more than 4e13 leaves)
		h := int8(v.U8())
		v.Assume(h > 0)
		v.Assume(h < 64)
		n.height = h
		n.leftHash, n.rightHash = v.Bytes(32), v.Bytes(32)
	}
	var buf bytes.Buffer
	err := n.writeBytes(&buf)
	v.Assert(err == nil, "write-ok")
	v.Assert(buf.Len() == n.aminoSize(), "amino-size-exact")
	m, err := MakeNode(buf.Bytes())
	v.Assert(err == nil, "decode-ok")
	if err != nil {
		return
	}
	ok := v.And(m.height == n.height, v.And(m.size == n.size, m.version == n.version))
	v.Assert(ok, "header-roundtrip")
	v.Assert(bytes.Equal(m.key, n.key), "key-roundtrip")
	if leaf {
		v.Assert(bytes.Equal(m.value, n.value), "value-roundtrip")
	} else {
		v.Assert(v.And(bytes.Equal(m.leftHash, n.leftHash), bytes.Equal(m.rightHash, n.rightHash)), "hashes-roundtrip")
	}
	v.Observe("len", buf.Len())
}

// VerifC04keys: the node-db key formats round-trip and preserve the order of non-negative versions
// (what getPreviousVersion, getRoots and the orphan traversal rely on).
func VerifC04keys() {
	v1, v2 := v.I64(), v.I64()
	k1, k2 := rootKeyFormat.Key(v1), rootKeyFormat.Key(v2)
	var back int64
	rootKeyFormat.Scan(k1, &back)
	v.Assert(back == v1, "root-key-roundtrip")
	v.Assert(len(k1) == 9 && k1[0] == 'r', "root-key-shape")
	if v1 >= 0 && v2 >= 0 {
		v.Assert((v1 < v2) == (bytes.Compare(k1, k2) < 0), "root-key-order")
		v.Assert((v1 == v2) == bytes.Equal(k1, k2), "root-key-injective")
	}
	// orphan keys: (toVersion, fromVersion, hash)
	h := v.Bytes(32)
	f1, t1 := v.I64(), v.I64()
	ok := orphanKeyFormat.Key(t1, f1, h)
	var f2, t2 int64
	var h2 []byte
	orphanKeyFormat.Scan(ok, &t2, &f2, &h2)
	v.Assert(v.And(f2 == f1, v.And(t2 == t1, bytes.Equal(h2, h))), "orphan-key-roundtrip")
	// prefix used by traverseOrphansVersion(version): all and only keys with toVersion == version
	probe := v.I64()
	pfx := orphanKeyFormat.Key(probe)
	v.Assert(bytes.HasPrefix(ok, pfx) == (t1 == probe), "orphan-prefix-selects-version")
	// node keys
	nk := nodeKeyFormat.Key(h)
	var h3 []byte
	nodeKeyFormat.Scan(nk, &h3)
	v.Assert(bytes.Equal(h3, h), "node-key-roundtrip")
	v.Observe("k1", k1)
}
