//verif:dir store/iavl
package iavl

import (
	"bytes"

	v "github.com/pokt-network/pocket-core/verifrt"
	"github.com/pokt-network/pocket-core/verifrt/modelkv"
)

//verif:config VerifC04tree maxpaths=200000

// VerifC04tree: the tree's own reload entry points (MutableTree.Load, i.e. LoadVersion(0), and
// LoadVersion(n)), which the multistore path of VerifC04reopen never takes with a zero target.
// Version 1 holds one arbitrary key; version 2 is produced by an arbitrary write or an arbitrary
// removal (so it may be the EMPTY tree, saved with an empty root record); a new tree object over
// the same DB, loaded at the latest version, reports version 2, the hash returned by the second
// SaveVersion, the same size and the same value at an arbitrary probe key; loaded at version 1 it
// reports the first hash.
func VerifC04tree() {
	db := modelkv.NewUnorderedDB()
	tree, err := NewMutableTree(db, 0)
	v.Assert(err == nil, "opens")
	tree.Set(v.Bytes(1), v.Bytes(1))
	h1, ver1, err := tree.SaveVersion()
	v.Assert(err == nil && ver1 == 1, "version-1-saved")
	k2 := v.Bytes(1)
	if v.Choice(2) == 0 {
		tree.Remove(k2)
	} else {
		tree.Set(k2, v.Bytes(1))
	}
	h2, ver2, err := tree.SaveVersion()
	v.Assert(err == nil && ver2 == 2, "version-2-saved")

	re, err := NewMutableTree(db, 0)
	v.Assert(err == nil, "reopens")
	got, err := re.Load()
	v.Assert(err == nil, "latest-loads")
	v.Assert(got == 2 && re.Version() == 2, "reloaded-latest-reports-version-2")
	v.Assert(bytes.Equal(re.Hash(), h2), "reloaded-latest-has-the-saved-root-hash")
	v.Assert(re.Size() == tree.Size(), "reloaded-latest-has-the-same-size")
	probe := v.Bytes(1)
	_, want := tree.Get(probe)
	_, have := re.Get(probe)
	v.Assert(bytes.Equal(want, have) && (want == nil) == (have == nil), "reloaded-latest-holds-the-same-contents")

	old, err := NewMutableTree(db, 0)
	v.Assert(err == nil, "reopens")
	got, err = old.LoadVersion(1)
	v.Assert(err == nil && got == 1, "version-1-loads")
	v.Assert(bytes.Equal(old.Hash(), h1) && old.Size() == 1, "reloaded-version-1-has-its-root-hash")
}
