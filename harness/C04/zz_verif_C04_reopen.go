//verif:dir store/rootmulti
package rootmulti

import (
	"bytes"

	sdk "github.com/pokt-network/pocket-core/types"

	v "github.com/pokt-network/pocket-core/verifrt"
	"github.com/pokt-network/pocket-core/verifrt/modelkv"
)

// VerifC04reopen: the whole persistence path — real rootmulti.Store over two real IAVL substores
// and the model DB. Two blocks of arbitrary writes are committed; a NEW store object opened on the
// same DB at the latest version, and one opened at the retained version 1 (LoadVersion), report
// the commit id of that version and hold exactly that version's contents (compared with a
// reference map at an arbitrary key).
func VerifC04reopen() {
	db := modelkv.NewUnorderedDB()
	rs := mwMustOpen(db)
	ref := mwNewRef()
	block := func() []mwOp { return mwBlock(1) } // (two writes per block did not finish within the thorough budget: same bound in both tiers)
	b1 := block()
	mwApply(rs, b1)
	ref.apply(b1)
	id1 := rs.Commit()
	ref1 := ref.clone()
	b2 := block()
	mwApply(rs, b2)
	ref.apply(b2)
	id2 := rs.Commit()

	latest := mwMustOpen(db)
	v.Assert(latest.LastCommitID().Version == 2 && bytes.Equal(latest.LastCommitID().Hash, id2.Hash), "reopened-at-latest-reports-its-commit-id")
	v.Assert(mwStoreAgrees(latest, ref), "reopened-at-latest-holds-the-latest-contents")

	old, _ := mwOpen(db)
	v.Assert(old.LoadVersion(1) == nil, "retained-version-loads")
	v.Assert(old.LastCommitID().Version == 1 && bytes.Equal(old.LastCommitID().Hash, id1.Hash), "reopened-at-version-1-reports-its-commit-id")
	v.Assert(mwStoreAgrees(old, ref1), "reopened-at-version-1-holds-version-1-contents")
	for _, key := range []*sdk.KVStoreKey{mwA, mwB} {
		v.Assert(old.GetCommitStore(key).LastCommitID().Version == 1, "substore-opened-at-the-requested-version")
	}
}
