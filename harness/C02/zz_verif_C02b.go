//verif:dir store/prefix
package prefix

import (
	"bytes"

	v "github.com/pokt-network/pocket-core/verifrt"
	"github.com/pokt-network/pocket-core/verifrt/modelkv"
)

func c02bound(n int) []byte {
	// nil or n symbolic bytes
	if v.Choice(2) == 0 {
		return nil
	}
	return v.Bytes(n)
}

// VerifC02b: prefix.Store over a model parent — point operations touch exactly prefix‖key, and
// (reverse) iteration returns exactly the parent's keys under the prefix within [start,end),
// stripped, in order.
func VerifC02b() {
	maxp, nparent := 2, 2
	if v.Tier() > 0 {
		maxp, nparent = 3, 3
	}
	p := v.Bytes(v.Choice(maxp + 1))
	parent := modelkv.New()
	for i := 0; i < nparent; i++ {
		parent.SetRaw(v.Bytes(1+v.Choice(2)), []byte{byte(i + 1)})
	}
	before := parent.Snapshot()
	st := NewStore(parent, p)

	switch v.Choice(4) {
	case 0: // Get / Has
		key := v.Bytes(v.Choice(2))
		full := append(append([]byte{}, p...), key...)
		got, _ := st.Get(key)
		want := parent.GetRaw(full)
		v.Assert(v.And((got == nil) == (want == nil), bytes.Equal(got, want)), "get")
		has, _ := st.Has(key)
		v.Assert(has == (want != nil), "has")
		v.Assert(parent.Writes == nparent, "read-does-not-write")
	case 1: // Set then parent holds exactly prefix‖key -> value, everything else unchanged
		key := v.Bytes(v.Choice(2))
		val := v.Bytes(1)
		full := append(append([]byte{}, p...), key...)
		_ = st.Set(key, val)
		v.Assert(bytes.Equal(parent.GetRaw(full), val), "set-writes-prefixed-key")
		for _, it := range before {
			if !bytes.Equal(it.K, full) {
				v.Assert(bytes.Equal(parent.GetRaw(it.K), it.V), "set-leaves-others")
			}
		}
		v.Assert(len(parent.Items) <= len(before)+1, "set-adds-at-most-one")
	case 2: // Delete
		key := v.Bytes(v.Choice(2))
		full := append(append([]byte{}, p...), key...)
		_ = st.Delete(key)
		v.Assert(parent.GetRaw(full) == nil, "delete-removes-prefixed-key")
		for _, it := range before {
			if !bytes.Equal(it.K, full) {
				v.Assert(bytes.Equal(parent.GetRaw(it.K), it.V), "delete-leaves-others")
			}
		}
	case 3: // iteration
		start, end := c02bound(1), c02bound(1)
		rev := v.Choice(2) == 1
		var it interface {
			Valid() bool
			Next()
			Key() []byte
			Value() []byte
		}
		if rev {
			it, _ = st.ReverseIterator(start, end)
		} else {
			it, _ = st.Iterator(start, end)
		}
		// oracle: filter, strip, order
		var want []modelkv.KV
		for _, kv := range before {
			if bytes.HasPrefix(kv.K, p) {
				s := kv.K[len(p):]
				if modelkv.InDomain(s, start, end) {
					want = append(want, modelkv.KV{K: s, V: kv.V})
				}
			}
		}
		if rev {
			for i, j := 0, len(want)-1; i < j; i, j = i+1, j-1 {
				want[i], want[j] = want[j], want[i]
			}
		}
		n := 0
		for ; it.Valid(); it.Next() {
			v.Assert(n < len(want), "iter-no-extra")
			if n < len(want) {
				v.Assert(v.And(bytes.Equal(it.Key(), want[n].K), bytes.Equal(it.Value(), want[n].V)), "iter-element")
			}
			n++
		}
		v.Assert(n == len(want), "iter-count")
		v.Assert(parent.Writes == nparent, "iter-does-not-write")
	}
}

// VerifC02nested: a prefix view of a prefix view. Through NewStore(NewStore(parent, p1), p2) every
// point operation touches exactly p1‖p2‖key in the parent (arbitrary 1-byte p1, p2, 0..1-byte key),
// reads see exactly that entry, and nothing else in the parent changes.
func VerifC02nested() {
	p1, p2 := v.Bytes(1), v.Bytes(1)
	parent := modelkv.New()
	for i := 0; i < 2; i++ {
		parent.SetRaw(v.Bytes(2+v.Choice(2)), []byte{byte(i + 1)})
	}
	before := parent.Snapshot()
	inner := NewStore(NewStore(parent, p1), p2)
	key := v.Bytes(v.Choice(2))
	full := append(append(append([]byte{}, p1...), p2...), key...)
	switch v.Choice(3) {
	case 0:
		got, _ := inner.Get(key)
		want := parent.GetRaw(full)
		v.Assert(v.And((got == nil) == (want == nil), bytes.Equal(got, want)), "nested-get")
		has, _ := inner.Has(key)
		v.Assert(has == (want != nil), "nested-has")
	case 1:
		val := v.Bytes(1)
		_ = inner.Set(key, val)
		v.Assert(bytes.Equal(parent.GetRaw(full), val), "nested-set-writes-p1-p2-key")
		for _, it := range before {
			if !bytes.Equal(it.K, full) {
				v.Assert(bytes.Equal(parent.GetRaw(it.K), it.V), "nested-set-leaves-others")
			}
		}
		v.Assert(len(parent.Items) <= len(before)+1, "nested-set-adds-at-most-one")
	case 2:
		_ = inner.Delete(key)
		v.Assert(parent.GetRaw(full) == nil, "nested-delete-removes-p1-p2-key")
		for _, it := range before {
			if !bytes.Equal(it.K, full) {
				v.Assert(bytes.Equal(parent.GetRaw(it.K), it.V), "nested-delete-leaves-others")
			}
		}
	}
}
