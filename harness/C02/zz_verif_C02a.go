//verif:dir store/types
package types

import (
	"bytes"

	v "github.com/pokt-network/pocket-core/verifrt"
)

// VerifC02a: arithmetic lemma on PrefixEndBytes — for every prefix p and key k:
// HasPrefix(k,p)  <=>  p <= k  &&  (end == nil || k < end).
func VerifC02a() {
	maxp, maxk := 2, 2
	if v.Tier() > 0 {
		maxp, maxk = 3, 4
	}
	np := v.Choice(maxp + 1)
	nk := v.Choice(maxk + 1)
	p, k := v.Bytes(np), v.Bytes(nk)
	end := PrefixEndBytes(p)
	inRange := v.And(bytes.Compare(k, p) >= 0, v.Or(end == nil, bytes.Compare(k, end) < 0))
	v.Assert(bytes.HasPrefix(k, p) == inRange, "prefix-range")
	v.Observe("end", end)
	v.Observe("inRange", inRange)
}
