//verif:dir x/nodes/keeper
package keeper

import (
	"math/big"
	"time"

	sdk "github.com/pokt-network/pocket-core/types"
	"github.com/pokt-network/pocket-core/x/nodes/types"
	v "github.com/pokt-network/pocket-core/verifrt"
)

// VerifC24mature: with arbitrary block time and completion times, the end-of-block sweep returns
// the stake of every unstaking node whose completion time is at or before the block time, exactly
// once, to its output address, and removes the record; nodes not yet due are untouched. A queue
// entry that lists the node twice (SetValidator appends on every save) still pays once.
func VerifC24mature() {
	w := nwNew(false)
	t0 := time.Unix(v.Int64In(1000000, 2000000000), 0).UTC()
	stake := v.BigIn("1", nwMaxTokens)
	val := types.Validator{Address: w.addrs[0], PublicKey: w.pks[0], ServiceURL: "https://n0:443", Chains: []string{nwChains[0]},
		Status: sdk.Unstaking, Jailed: v.Choice(2) == 1, StakedTokens: sdk.NewIntFromBigInt(stake), UnstakingCompletionTime: t0}
	custodial := v.Choice(2) == 1
	if custodial {
		val.OutputAddress = w.out
	}
	w.install(val)
	if v.Choice(2) == 1 { // the record saved once more while unstaking: second queue entry
		w.k.SetValidator(w.ctx, val)
		v.Reach("duplicate-queue-entry")
	}
	other := types.Validator{Address: w.addrs[1], PublicKey: w.pks[1], ServiceURL: "https://n1:443", Chains: []string{nwChains[0]},
		Status: sdk.Unstaking, StakedTokens: sdk.NewInt(20000000000), UnstakingCompletionTime: time.Unix(1500000000, 0).UTC()}
	w.install(other)
	w.credit(w.addrs[0], big.NewInt(3))
	w.credit(w.out, big.NewInt(5))
	payee := w.addrs[0]
	if custodial {
		payee = w.out
	}
	prePayee, preOther, prePool := w.bal(payee), w.bal(w.addrs[1]), w.pool()
	due := !w.ctx.Time.Before(t0)                                   // block time >= completion time
	dueOther := !w.ctx.Time.Before(other.UnstakingCompletionTime)

	w.k.unstakeAllMatureValidators(w.ctx)

	_, found := w.k.GetValidator(w.ctx, w.addrs[0])
	v.Assert(found == !due, "record-removed-iff-due")
	wantPayee := prePayee
	if due {
		wantPayee = new(big.Int).Add(prePayee, stake)
	}
	v.Assert(w.bal(payee).Cmp(wantPayee) == 0, "stake-returned-exactly-once-iff-due")
	_, foundOther := w.k.GetValidator(w.ctx, w.addrs[1])
	v.Assert(foundOther == !dueOther, "other-record-removed-iff-due")
	wantOther := preOther
	if dueOther {
		wantOther = new(big.Int).Add(preOther, big.NewInt(20000000000))
	}
	v.Assert(w.bal(w.addrs[1]).Cmp(wantOther) == 0, "other-stake-returned-iff-due")
	wantPool := prePool
	if due {
		wantPool = new(big.Int).Sub(wantPool, stake)
	}
	if dueOther {
		wantPool = new(big.Int).Sub(wantPool, big.NewInt(20000000000))
	}
	v.Assert(w.pool().Cmp(wantPool) == 0, "pool-pays-exactly-the-due-stakes")
	w.checkPool("pool-invariant-after-sweep")
	w.checkIndexes("indexes-after-sweep")
	v.Observe("payee", w.bal(payee))
}

// VerifC24begin: beginning to unstake sets completion = block time + UnstakingTime (only if unset),
// moves the node from the staking indexes to the queue and pays nothing yet.
func VerifC24begin() {
	w := nwNew(false)
	stake := v.BigIn("1", nwMaxTokens)
	val := types.Validator{Address: w.addrs[0], PublicKey: w.pks[0], ServiceURL: "https://n0:443", Chains: []string{nwChains[0], nwChains[1]},
		Status: sdk.Staked, Jailed: v.Choice(2) == 1, StakedTokens: sdk.NewIntFromBigInt(stake), OutputAddress: w.out}
	w.install(val)
	w.credit(w.out, big.NewInt(5))
	preOut, prePool := w.bal(w.out), w.pool()
	if w.k.ValidateValidatorBeginUnstaking(w.ctx, val) != nil {
		return
	}
	w.k.BeginUnstakingValidator(w.ctx, val)
	got, found := w.k.GetValidator(w.ctx, w.addrs[0])
	v.Assert(found && got.IsUnstaking(), "now-unstaking")
	v.Assert(got.UnstakingCompletionTime.Equal(w.ctx.Time.Add(w.params.UnstakingTime)), "completion-is-blocktime-plus-unstaking-time")
	v.Assert(got.StakedTokens.BigInt().Cmp(stake) == 0, "stake-kept-while-unstaking")
	v.Assert(w.bal(w.out).Cmp(preOut) == 0 && w.pool().Cmp(prePool) == 0, "nothing-paid-yet")
	w.checkIndexes("indexes-after-begin")
}

// VerifC24boundary: a node that asked to begin unstaking (or was forced to) waits; the end-of-block
// validator update at an ARBITRARY height h moves it to the unstaking state exactly when h is the
// last block of a session (h mod blocks-per-session == 0, for 1, 4, 5 or 25 blocks per session) —
// never earlier in the session.
func VerifC24boundary() {
	w := nwNew(false)
	p := w.params
	bps := []int64{1, 4, 5, 25}[v.Choice(4)]
	p.SessionBlockFrequency = bps
	w.setParams(p)
	val := types.Validator{Address: w.addrs[0], PublicKey: w.pks[0], ServiceURL: "https://n0:443", Chains: []string{nwChains[0]},
		Status: sdk.Staked, StakedTokens: sdk.NewIntFromBigInt(v.BigIn("1", nwMaxTokens)), OutputAddress: w.out}
	w.install(val)
	if v.Choice(2) == 1 {
		_ = w.k.ForceValidatorUnstake(w.ctx, val)
	} else {
		if w.k.ValidateValidatorBeginUnstaking(w.ctx, val) != nil {
			return
		}
		_ = w.k.WaitToBeginUnstakingValidator(w.ctx, val)
	}
	mid, _ := w.k.GetValidator(w.ctx, w.addrs[0])
	v.Assert(mid.IsStaked(), "still-staked-while-waiting")
	w.k.UpdateTendermintValidators(w.ctx)
	got, found := w.k.GetValidator(w.ctx, w.addrs[0])
	v.Assert(found, "record-kept")
	boundary := w.ctx.Height%bps == 0
	v.Assert(v.Iff(got.IsUnstaking(), boundary), "leaves-the-staked-state-exactly-at-the-session-boundary")
	v.Assert(v.Or(boundary, got.IsStaked()), "stays-staked-inside-the-session")
}
