//verif:dir x/pocketcore/types
package types

import (
	"encoding/hex"

	sdk "github.com/pokt-network/pocket-core/types"
	v "github.com/pokt-network/pocket-core/verifrt"
)

//verif:config VerifC34 native=no

// VerifC34: two relay-serving threads for the same session. Each thread performs, as in
// Keeper.HandleRelay, Relay.Validate and then RelayProof.Store; the schedule (which thread runs
// which of its two steps when) is the solver's choice, as are whether the two relays are identical
// and how many relays the application allows this node. Bound: 2 threads, interleaving at the
// granularity of those two steps (3 schedules up to symmetry); finer interleavings inside the
// steps are covered by VerifC34fine. Afterwards the stored evidence holds no
// relay proof twice, not more than the allowance, and every relay that was validated and stored
// (and would therefore be answered with a signed response) is recorded.
func VerifC34() {
	GlobalPocketConfig.ClientBlockSyncAllowance = 10
	max := int64(1 + v.Choice(2))
	w := rwNew(max, true)
	ctx := rwCtx{h: 6}
	identical := v.Choice(2) == 1
	r := [2]Relay{rwRelay(1, "x"), rwRelay(2, "x")}
	if identical {
		r[1] = rwRelay(1, "x")
	}
	// schedule: thread 0 always starts (the threads are symmetric); 3 interleavings of V0 S0 | V1 S1
	sched := [][]int{{0, 0, 1, 1}, {0, 1, 0, 1}, {0, 1, 1, 0}}[v.Choice(3)]
	var validated, stored, sealedAfter [2]bool
	var maxRelays [2]sdk.BigInt
	for _, t := range sched {
		if !validated[t] {
			first := !validated[0] && !validated[1]
			m, err := r[t].Validate(ctx, w.k, w.k, w.k, w.hb, 5, w.node)
			validated[t] = true
			if first {
				// (non-vacuity and completeness: on the still empty evidence a relay whose two
				// signatures verify is served)
				rp := r[t].Proof
				raw := func(h string) []byte { b, _ := hex.DecodeString(h); return b }
				ok := v.And(v.SigVerdict(raw(rp.Token.ApplicationPublicKey), rp.Token.Hash(), raw(rp.Token.ApplicationSignature)),
					v.SigVerdict(raw(rp.Token.ClientPublicKey), rp.Hash(), raw(rp.Signature)))
				v.Assert(v.Implies(ok, err == nil), "authorised-relay-on-empty-evidence-is-served")
			}
			if err == nil {
				maxRelays[t] = m
				stored[t] = true // the store step is pending
			}
			continue
		}
		if stored[t] {
			r[t].Proof.Store(maxRelays[t], w.node.EvidenceStore)
			// the response is signed after this step: was the evidence sealed by then?
			sealedAfter[t] = w.node.EvidenceStore.IsSealed(Evidence{SessionHeader: w.header, EvidenceType: RelayEvidence})
		}
	}
	ev, err := GetEvidence(w.header, RelayEvidence, sdk.ZeroInt(), w.node.EvidenceStore)
	if err != nil {
		v.Assert(!stored[0] && !stored[1], "answered-relays-are-recorded")
		return
	}
	v.Reach("evidence-stored")
	dup := false
	for i := range ev.Proofs {
		for j := i + 1; j < len(ev.Proofs); j++ {
			dup = dup || ev.Proofs[i].HashString() == ev.Proofs[j].HashString()
		}
	}
	v.AssertK(!dup, "no-relay-proof-stored-twice", v.Known("C34-K1", identical && sched[1] == 1))
	v.Assert(int64(len(ev.Proofs)) <= max && ev.NumOfProofs <= max, "never-more-relays-than-allowed")
	for t := 0; t < 2; t++ {
		if stored[t] && !sealedAfter[t] {
			found := false
			for _, p := range ev.Proofs {
				found = found || p.HashString() == r[t].Proof.HashString()
			}
			v.Assert(found, "answered-relays-are-recorded")
		}
	}
}


// VerifC34fine: the store step at its real lock granularity. SetProof is GetEvidence (takes and
// releases the storage lock), AddProof on the private copy, SetEvidence (lock again); two threads
// that both passed validation run those sub-steps in an arbitrary interleaving. First the harness
// checks, sequentially, that SetProof is exactly that sequence (same resulting evidence), then
// explores the interleavings.
func VerifC34fine() {
	rwInit()
	GlobalPocketConfig.ClientBlockSyncAllowance = 10
	max := sdk.NewInt(5)
	ref, w := rwNew(5, true), rwNew(5, true)
	r := [2]Relay{rwRelay(1, "x"), rwRelay(2, "x")}
	// the sub-step decomposition agrees with SetProof when run without interleaving
	SetProof(ref.header, RelayEvidence, r[0].Proof, max, ref.node.EvidenceStore)
	e0, _ := GetEvidence(w.header, RelayEvidence, max, w.node.EvidenceStore)
	e0.AddProof(r[0].Proof)
	SetEvidence(e0, w.node.EvidenceStore)
	a, _ := GetEvidence(ref.header, RelayEvidence, sdk.ZeroInt(), ref.node.EvidenceStore)
	b, _ := GetEvidence(w.header, RelayEvidence, sdk.ZeroInt(), w.node.EvidenceStore)
	v.Assert(a.NumOfProofs == b.NumOfProofs && len(a.Proofs) == len(b.Proofs) && a.Proofs[0].HashString() == b.Proofs[0].HashString(), "substeps-are-what-SetProof-does")
	// two threads, sub-steps G (get) and P (add + put); thread 0 starts
	w = rwNew(5, true)
	sched := [][]int{{0, 0, 1, 1}, {0, 1, 0, 1}, {0, 1, 1, 0}}[v.Choice(3)]
	var got [2]bool
	var ev [2]Evidence
	for _, t := range sched {
		if !got[t] {
			ev[t], _ = GetEvidence(w.header, RelayEvidence, max, w.node.EvidenceStore)
			got[t] = true
			continue
		}
		ev[t].AddProof(r[t].Proof)
		SetEvidence(ev[t], w.node.EvidenceStore)
	}
	fin, err := GetEvidence(w.header, RelayEvidence, sdk.ZeroInt(), w.node.EvidenceStore)
	v.Assert(err == nil, "evidence-exists")
	for t := 0; t < 2; t++ {
		found := false
		for _, p := range fin.Proofs {
			found = found || p.HashString() == r[t].Proof.HashString()
		}
		v.AssertK(found, "no-answered-relay-is-lost", v.Known("C34-K2", sched[1] == 1))
	}
}
