//verif:dir x/nodes/keeper
package keeper

import (
	"math/big"

	sdk "github.com/pokt-network/pocket-core/types"
	"github.com/pokt-network/pocket-core/x/nodes/types"
	v "github.com/pokt-network/pocket-core/verifrt"
)

// VerifC14stake: who may stake or edit a node. ValidateValidatorStaking for an arbitrary signer
// (operator, current output address, the output address named in the message, a stranger — the
// message may name the stranger as its output address), against a node that does not exist yet or
// exists in any status with or without an output address: whenever the message is accepted the
// signer is the operator or the CURRENT output address of an existing node, and the operator or
// the declared output address of a new one.
func VerifC14stake() {
	w := nwNew(false)
	stranger, otherOut := w.addrs[2], sdk.Address([]byte("output-address-11111"))
	exists := v.Choice(2) == 1
	var cur types.Validator
	if exists {
		cur = w.arbitraryValidator(0)
		cur.OutputAddress = []sdk.Address{nil, w.out}[v.Choice(2)]
		w.install(cur)
	}
	for _, a := range []sdk.Address{w.addrs[0], w.out, otherOut, stranger} {
		w.credit(a, big.NewInt(2000000000000000))
	}
	nv := types.Validator{Address: w.addrs[0], PublicKey: w.pks[0], Status: sdk.Staked, ServiceURL: "https://edited:443",
		Chains: []string{nwChains[1]}, StakedTokens: sdk.ZeroInt()}
	nv.OutputAddress = []sdk.Address{nil, w.out, otherOut, stranger}[v.Choice(4)]
	signer := []sdk.Address{w.addrs[0], w.out, otherOut, stranger}[v.Choice(4)]
	amount := sdk.NewIntFromBigInt(v.BigIn("0", nwMaxTokens+"0"))
	if err := w.k.ValidateValidatorStaking(w.ctx, nv, amount, signer); err != nil {
		return
	}
	v.Reach("stake-accepted")
	if exists {
		ok := signer.Equals(cur.Address) || (cur.OutputAddress != nil && signer.Equals(cur.OutputAddress))
		v.Assert(ok, "existing-node-edited-only-by-operator-or-current-output")
	} else {
		ok := signer.Equals(nv.Address) || (nv.OutputAddress != nil && signer.Equals(nv.OutputAddress))
		v.Assert(ok, "new-node-staked-only-by-operator-or-declared-output")
	}
}
