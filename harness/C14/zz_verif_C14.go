//verif:dir x/auth
package auth

import (
	"github.com/pokt-network/pocket-core/codec"
	"github.com/pokt-network/pocket-core/crypto"
	sdk "github.com/pokt-network/pocket-core/types"
	"github.com/pokt-network/pocket-core/x/auth/types"
	v "github.com/pokt-network/pocket-core/verifrt"
)

//verif:config VerifC14 native=no

// VerifC14: ValidateTransaction accepts a transaction only if the key it returns belongs to an
// address allowed to sign the message (a declared signer; the stake message's output address once
// that feature is active; the application-transfer signer once that feature is active) and the
// signature verified, under that key, over THIS chain's sign bytes (ideal signatures: every
// verification verdict is arbitrary). Duplicate transactions are rejected.
func VerifC14() {
	w := authWorldNew()
	h := w.ctx.Height
	w.setAccount(0, bigInt(50000), true)
	w.setAccount(1, bigInt(50000), true)
	declared := []sdk.Address{w.addrs[0]}
	msg := awMsg{signers: declared}
	// the signature carries one of the three keys, or none (key looked up from the signer's account)
	ki := v.Choice(4)
	sig := types.StdSignature{Signature: v.Bytes(2)}
	if ki < 3 {
		sig.PublicKey = w.keys[ki]
	}
	tx := types.StdTx{Msg: msg, Fee: sdk.NewCoins(sdk.NewCoin(sdk.DefaultStakeDenom, sdk.NewInt(10000))), Signature: sig, Memo: "m", Entropy: v.I64()}
	simulate := v.Choice(2) == 1
	seen := v.Choice(2) == 1
	var pk crypto.PublicKey
	var err sdk.Error
	// a panic inside the ante handler is recovered by baseapp.runTx and rejects the transaction (it
	// happens for a signature without public key once the application-transfer feature is active)
	if v.ExpectPanic(func() {
		pk, err = ValidateTransaction(w.ctx, w.k, tx, w.params, awIndexer{seen: seen}, []byte("tx-bytes"), simulate)
	}) {
		return
	}
	if err != nil {
		return
	}
	v.Reach("accepted")
	v.Assert(!seen, "duplicate-transaction-rejected")
	addr := sdk.Address(pk.Address())
	allowed := addr.Equals(w.addrs[0])
	if w.modern && w.outSet {
		allowed = allowed || addr.Equals(w.addrs[2])
	}
	if w.modern && w.xfer && ki < 3 {
		allowed = allowed || addr.Equals(sdk.Address(w.keys[ki].Address()))
	}
	v.AssertK(allowed, "accepted-key-belongs-to-an-allowed-signer",
		v.Known("C14-K1", h == codec.CodecChainHaltHeight))
	signBytes, _ := GetSignBytes(w.ctx.ChainID(), tx)
	v.Assert(v.Or(simulate, v.SigVerdict(pk.RawBytes(), signBytes, sig.Signature)), "signature-verified-over-this-chains-sign-bytes")
	otherBytes, _ := GetSignBytes("other-chain", tx)
	v.Assert(string(otherBytes) != string(signBytes), "sign-bytes-bind-the-chain-id")
}
