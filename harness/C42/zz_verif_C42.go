//verif:dir types
package types

import (
	"bytes"

	v "github.com/pokt-network/pocket-core/verifrt"
	"github.com/pokt-network/pocket-core/verifrt/modelkv"
	abci "github.com/tendermint/tendermint/abci/types"
	"github.com/tendermint/tendermint/libs/pubsub/query"
	"github.com/tendermint/tendermint/state/txindex"
	tmtypes "github.com/tendermint/tendermint/types"
)

func c42max() int64 {
	if v.Tier() > 0 {
		return 12000 // 1..5 digit heights
	}
	return 120 // 1..3 digit heights
}

// VerifC42keys: the index keys order exactly like (height, index), and the height prefix range
// contains exactly the keys of that height.
func VerifC42keys() {
	h1, h2 := v.Int64In(0, c42max()), v.Int64In(0, c42max())
	i1, i2 := v.Int64In(0, 120), v.Int64In(0, 120)
	r1 := &tmtypes.TxResult{Height: h1, Index: uint32(i1)}
	r2 := &tmtypes.TxResult{Height: h2, Index: uint32(i2)}
	k1, k2 := keyForHeight(r1), keyForHeight(r2)
	less := v.Or(h1 < h2, v.And(h1 == h2, i1 < i2))
	v.Assert(less == (bytes.Compare(k1, k2) < 0), "height-key-order")
	v.Assert(v.And(h1 == h2, i1 == i2) == bytes.Equal(k1, k2), "height-key-injective")
	// the range scanned for height h1 holds k2 iff h2 == h1
	p := prefixKeyForHeight(h1)
	in := v.And(bytes.Compare(k2, p) >= 0, bytes.Compare(k2, endKey(p)) < 0)
	v.Assert(in == (h2 == h1), "height-range-exact")
	// the per-sender and per-recipient keys order like (height, index) too, and the range scanned
	// for an address holds them whatever the height
	r1.Result.Signer, r2.Result.Signer = c42addrs[0], c42addrs[0]
	r1.Result.Recipient, r2.Result.Recipient = c42addrs[1], c42addrs[1]
	s1, s2 := keyForSigner(r1), keyForSigner(r2)
	v.Assert(less == (bytes.Compare(s1, s2) < 0), "signer-key-order")
	q1, q2 := keyForRecipient(r1), keyForRecipient(r2)
	v.Assert(less == (bytes.Compare(q1, q2) < 0), "recipient-key-order")
	sp := prefixKeyForSigner(c42addrs[0])
	v.Assert(v.And(bytes.Compare(s2, sp) >= 0, bytes.Compare(s2, endKey(sp)) < 0), "signer-range-holds-every-height")
	rp := prefixKeyForRecipient(c42addrs[1])
	v.Assert(v.And(bytes.Compare(q2, rp) >= 0, bytes.Compare(q2, endKey(rp)) < 0), "recipient-range-holds-every-height")
	op := prefixKeyForSigner(c42addrs[1])
	v.Assert(!v.And(bytes.Compare(s2, op) >= 0, bytes.Compare(s2, endKey(op)) < 0), "signer-range-excludes-other-address")
}

var c42heights = []int64{5, 12, 7}

var c42addrs = []Address{Address("signer-address-aaaaa"), Address("signer-address-bbbbb")}

type c42tx struct {
	res     *tmtypes.TxResult
	indexed bool
}

// c42populate indexes n arbitrary results through the real AddBatch.
func c42populate(db modelkv.DB, n int) (*TransactionIndexer, []c42tx) {
	t := NewTransactionIndexer(db)
	b := txindex.NewBatch(int64(n))
	var txs []c42tx
	for j := 0; j < n; j++ {
		r := &tmtypes.TxResult{
			Height: c42heights[v.Choice(2)], // symbolic heights are covered by VerifC42keys
			Index:  uint32(j),
			Tx:     tmtypes.Tx([]byte{'t', 'x', byte('0' + j)}),
		}
		r.Result.Signer = c42addrs[v.Choice(2)]
		if v.Choice(2) == 1 {
			r.Result.Recipient = c42addrs[v.Choice(2)]
		}
		anteFail := v.Choice(2) == 1
		if anteFail {
			r.Result.Codespace, r.Result.Code = AuthCodespace, 4
		}
		_ = b.Add(r)
		txs = append(txs, c42tx{r, !anteFail})
	}
	err := t.AddBatch(b)
	v.Assert(err == nil, "addbatch-ok")
	return t, txs
}

// c42pageOf cuts the page [skip, skip+size) out of the ordered matches.
func c42pageOf(want []*tmtypes.TxResult, lo, hi int) []*tmtypes.TxResult {
	if lo > len(want) {
		lo = len(want)
	}
	if hi > len(want) {
		hi = len(want)
	}
	return want[lo:hi]
}

func c42samePage(got, exp []*tmtypes.TxResult) bool {
	if len(got) != len(exp) {
		return false
	}
	same := true
	for k := range exp {
		if got[k] == nil {
			return false
		}
		same = v.And(same, v.And(got[k].Index == exp[k].Index, got[k].Height == exp[k].Height))
	}
	return same
}

// c42check compares one page of a query with the expected matches (given in ascending order).
// Known finding C42-K1: the indexer maps "asc" to the reverse iterator and "desc" to the forward
// one, i.e. it returns the page of the OPPOSITE direction; exactly that behaviour (and nothing
// else) is tolerated while the finding is listed.
func c42check(got []*tmtypes.TxResult, total int, err error, want []*tmtypes.TxResult, page *query.Page, label string) {
	v.Assert(err == nil, label+"-no-error")
	rev := make([]*tmtypes.TxResult, len(want))
	for i := range want {
		rev[len(want)-1-i] = want[i]
	}
	asc, desc := want, rev
	if page.Sort == SortDescending {
		asc, desc = rev, want // asc now holds the requested direction
	}
	v.Assert(total == len(want), label+"-total")
	lo := int(v.Concretize(int64(page.Skip), 0, 3))
	hi := lo + int(v.Concretize(int64(page.Size), 1, 4))
	exp, opp := c42pageOf(asc, lo, hi), c42pageOf(desc, lo, hi)
	v.AssertK(c42samePage(got, exp), label+"-page",
		v.Known("C42-K1", c42samePage(got, opp)))
}

func c42page() *query.Page {
	sort := SortAscending
	if v.Choice(2) == 1 {
		sort = SortDescending
	}
	// page size and offset are symbolic: the pagination arithmetic is decided for all of them
	return &query.Page{Size: v.IntIn(1, 4), Skip: v.IntIn(0, 3), Sort: sort}
}

// VerifC42search: after indexing arbitrary block results, lookup by hash returns every indexed
// result, ante-handler failures are not indexed, and searches by height / signer / signer+height
// return exactly the matches, in the requested order, paginated without gaps or repeats.
func VerifC42search() {
	n := 2 // (three indexed transactions did not finish within the thorough budget; outside the claim)
	db := modelkv.NewDB()
	t, txs := c42populate(db, n)
	switch v.Choice(4) {
	case 0: // by hash
		for _, x := range txs {
			got, err := t.Get(x.res.Tx.Hash())
			v.Assert(err == nil, "get-no-error")
			if x.indexed {
				v.Assert(got != nil && got.Height == x.res.Height && got.Index == x.res.Index, "get-returns-stored")
			} else {
				v.Assert(got == nil, "ante-failure-not-indexed")
			}
		}
	case 1: // by height
		h := c42heights[v.Choice(3)]
		var want []*tmtypes.TxResult
		for _, x := range txs {
			if x.indexed && x.res.Height == h {
				want = append(want, x.res)
			}
		}
		page := c42page()
		got, total, err := t.heightQuery(query.Condition{CompositeKey: TxHeightKey, Op: query.OpEqual, Operand: h}, page)
		c42check(got, total, err, want, page, "height")
	case 2: // by signer
		a := c42addrs[v.Choice(2)]
		want := c42sorted(txs, func(x c42tx) bool { return bytes.Equal(x.res.Result.Signer, a) })
		page := c42page()
		got, total, err := t.signerQuery(query.Condition{CompositeKey: TxSignerKey, Op: query.OpEqual, Operand: a.String()}, query.Condition{}, page)
		c42check(got, total, err, want, page, "signer")
	case 3: // by signer and height
		a := c42addrs[v.Choice(2)]
		h := c42heights[v.Choice(3)]
		// a sender query with a height returns the sender's transactions FROM that height on: that is
		// what the repository's own RPC test pins ("query with first tx block height returns both
		// txs"), and the property speaks only about plain sender / recipient / height searches
		want := c42sorted(txs, func(x c42tx) bool { return v.And(bytes.Equal(x.res.Result.Signer, a), x.res.Height >= h) })
		page := c42page()
		got, total, err := t.signerQuery(query.Condition{CompositeKey: TxSignerKey, Op: query.OpEqual, Operand: a.String()},
			query.Condition{CompositeKey: TxHeightKey, Op: query.OpEqual, Operand: h}, page)
		c42check(got, total, err, want, page, "signer-height")
	}
}

// c42sorted selects the indexed matches and orders them by (height, index) ascending.
func c42sorted(txs []c42tx, match func(c42tx) bool) []*tmtypes.TxResult {
	var out []*tmtypes.TxResult
	for _, x := range txs {
		if x.indexed && match(x) {
			out = append(out, x.res)
		}
	}
	for a := 1; a < len(out); a++ {
		for b := a; b > 0; b-- {
			p, q := out[b-1], out[b]
			if p.Height > q.Height || (p.Height == q.Height && p.Index > q.Index) {
				out[b-1], out[b] = q, p
			} else {
				break
			}
		}
	}
	return out
}

var _ = abci.ResponseDeliverTx{}
