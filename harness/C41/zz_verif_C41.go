//verif:dir types
package types

import (
	"math/big"

	v "github.com/pokt-network/pocket-core/verifrt"
)

var c41denoms = []string{"aaa", "bbb", "ccc"}

const c41lim = "1000000000000000000000000000000" // 10^30

func c41n() int {
	if v.Tier() > 0 {
		return 3
	}
	return 2
}

// c41coins builds an arbitrary sorted duplicate-free coin set over the alphabet (the documented
// precondition of safeAdd); amounts arbitrary in [lo,hi] (zero and negative included).
func c41coins(lo, hi string) Coins {
	n := c41n()
	mask := v.Choice(1 << n)
	var cs Coins
	for k := 0; k < n; k++ {
		if mask&(1<<k) != 0 {
			cs = append(cs, Coin{Denom: c41denoms[k], Amount: BigInt{v.BigIn(lo, hi)}})
		}
	}
	return cs
}

// c41amt is the oracle's view of a coin set: amount of denom d by linear scan (0 if absent);
// also reports how many entries carry d.
func c41amt(cs Coins, d string) (*big.Int, int) {
	r, n := new(big.Int), 0
	for _, c := range cs {
		if c.Denom == d {
			r = new(big.Int).Add(r, c.Amount.i)
			n++
		}
	}
	return r, n
}

func c41wellFormed(cs Coins, label string) {
	for k := range cs {
		v.Assert(cs[k].Amount.i.Sign() != 0, label+"-no-zero")
		if k > 0 {
			v.Assert(cs[k-1].Denom < cs[k].Denom, label+"-sorted-unique")
		}
	}
}

// VerifC41add: safeAdd/Add = per-denomination sum, sorted, duplicate- and zero-free.
func VerifC41add() {
	a, b := c41coins("-"+c41lim, c41lim), c41coins("-"+c41lim, c41lim)
	// the model amounts are taken before the call: removeZeroCoins compacts the caller's slice in
	// place when it holds zero coins, which the property does not speak about
	var xs, ys []*big.Int
	for _, d := range c41denoms[:c41n()] {
		x, _ := c41amt(a, d)
		y, _ := c41amt(b, d)
		xs, ys = append(xs, x), append(ys, y)
	}
	sum := a.Add(b)
	for k, d := range c41denoms[:c41n()] {
		s, n := c41amt(sum, d)
		v.Assert(n <= 1, "add-at-most-one-entry")
		v.Assert(s.Cmp(new(big.Int).Add(xs[k], ys[k])) == 0, "add-amount")
	}
	c41wellFormed(sum, "add")
}

// VerifC41sub: SafeSub = per-denomination difference; flag iff some difference is negative.
func VerifC41sub() {
	a, b := c41coins("0", c41lim), c41coins("0", c41lim)
	a2, b2 := append(Coins(nil), a...), append(Coins(nil), b...)
	var xs, ys []*big.Int
	for _, d := range c41denoms[:c41n()] {
		x, _ := c41amt(a, d)
		y, _ := c41amt(b, d)
		xs, ys = append(xs, x), append(ys, y)
	}
	diff, neg := a.SafeSub(b)
	anyNeg := false
	for k, d := range c41denoms[:c41n()] {
		s, n := c41amt(diff, d)
		want := new(big.Int).Sub(xs[k], ys[k])
		v.Assert(n <= 1, "sub-at-most-one-entry")
		v.Assert(s.Cmp(want) == 0, "sub-amount")
		anyNeg = v.Or(anyNeg, want.Sign() < 0)
	}
	v.Assert(neg == anyNeg, "sub-negative-flag")
	c41wellFormed(diff, "sub")
	// Sub panics exactly when the flag is set
	panicked := v.ExpectPanic(func() { _ = a2.Sub(b2) })
	v.Assert(panicked == anyNeg, "sub-panics-iff-negative")
}

// VerifC41valid: valid (positive, sorted) inputs give valid sums; AmountOf, IsAllGTE, IsAnyNegative,
// IsZero agree with the per-denomination model.
func VerifC41valid() {
	a, b := c41coins("1", c41lim), c41coins("1", c41lim)
	v.Assert(a.IsValid(), "constructed-valid")
	sum := a.Add(b)
	v.Assert(sum.IsValid(), "add-valid")
	allGTE := true
	for _, d := range c41denoms[:c41n()] {
		x, _ := c41amt(a, d)
		y, _ := c41amt(b, d)
		v.Assert(a.AmountOf(d).i.Cmp(x) == 0, "amountof")
		allGTE = v.And(allGTE, x.Cmp(y) >= 0)
	}
	if len(b) > 0 {
		v.Assert(a.IsAllGTE(b) == allGTE, "isallgte")
	}
	v.Assert(!sum.IsAnyNegative(), "sum-not-negative")
	v.Assert(sum.IsZero() == (len(a) == 0 && len(b) == 0), "iszero")
}

// VerifC41int: BigInt Add/Sub/Mul return the exact value or panic, and panic exactly when the
// exact result does not fit (|r| >= 2^255).
func VerifC41int() {
	const max = "57896044618658097711785492504343953926634992332820282019728792003956564819967" // 2^255-1
	x, y := BigInt{v.BigIn("-"+max, max)}, BigInt{v.BigIn("-"+max, max)}
	lim, _ := new(big.Int).SetString(max, 10)
	op := v.Choice(3)
	var exact *big.Int
	var res BigInt
	var panicked bool
	switch op {
	case 0:
		exact = new(big.Int).Add(x.i, y.i)
		panicked = v.ExpectPanic(func() { res = x.Add(y) })
	case 1:
		exact = new(big.Int).Sub(x.i, y.i)
		panicked = v.ExpectPanic(func() { res = x.Sub(y) })
	case 2:
		if v.Tier() == 0 {
			// quick: keep the product linear
			y = BigInt{big.NewInt(int64(v.Int64In(-1000, 1000)))}
		}
		exact = new(big.Int).Mul(x.i, y.i)
		panicked = v.ExpectPanic(func() { res = x.Mul(y) })
	}
	fits := new(big.Int).Abs(exact).Cmp(lim) <= 0
	v.Assert(panicked == !fits, "overflow-guard-exact")
	if !panicked {
		v.Assert(res.i.Cmp(exact) == 0, "result-exact")
	}
}
