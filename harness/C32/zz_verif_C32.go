//verif:dir x/pocketcore/keeper
package keeper

import (
	"sync"

	"github.com/pokt-network/pocket-core/codec"
	"github.com/pokt-network/pocket-core/crypto"
	sdk "github.com/pokt-network/pocket-core/types"
	appexported "github.com/pokt-network/pocket-core/x/apps/exported"
	nodesexported "github.com/pokt-network/pocket-core/x/nodes/exported"
	pc "github.com/pokt-network/pocket-core/x/pocketcore/types"
	v "github.com/pokt-network/pocket-core/verifrt"
	"github.com/pokt-network/pocket-core/verifrt/modelkv"
	"github.com/pokt-network/pocket-core/verifrt/vworld"
	abci "github.com/tendermint/tendermint/abci/types"
	"github.com/tendermint/tendermint/libs/log"
)

//verif:config VerifC32claim native=no
//verif:config VerifC32proof native=no

const (
	c32A1 = "a1a1a1a1a1a1a1a1a1a1a1a1a1a1a1a1a1a1a1a1a1a1a1a1a1a1a1a1a1a1a1a1" // staked application
	c32A2 = "a2a2a2a2a2a2a2a2a2a2a2a2a2a2a2a2a2a2a2a2a2a2a2a2a2a2a2a2a2a2a2a2" // not staked
	c32C1 = "c1c1c1c1c1c1c1c1c1c1c1c1c1c1c1c1c1c1c1c1c1c1c1c1c1c1c1c1c1c1c1c1"
	c32D1 = "d1d1d1d1d1d1d1d1d1d1d1d1d1d1d1d1d1d1d1d1d1d1d1d1d1d1d1d1d1d1d1d1" // node in the session
	c32D2 = "d2d2d2d2d2d2d2d2d2d2d2d2d2d2d2d2d2d2d2d2d2d2d2d2d2d2d2d2d2d2d2d2" // staked node, not in the session
	c32D3 = "d3d3d3d3d3d3d3d3d3d3d3d3d3d3d3d3d3d3d3d3d3d3d3d3d3d3d3d3d3d3d3d3" // not a node
)

func c32pub(h string) crypto.PublicKey {
	pk, err := crypto.NewPublicKey(h)
	if err != nil {
		panic(err)
	}
	return pk
}
func c32addr(h string) sdk.Address { return sdk.Address(c32pub(h).Address()) }

type c32ctx struct {
	*vworld.Ctx
	hash []byte
}

func (c c32ctx) PrevCtx(h int64) (sdk.Context, error) {
	return sdk.Context{}.WithBlockHeader(abci.Header{Height: h, ChainID: "verif-chain"}), nil
}
func (c c32ctx) Logger() log.Logger                       { return log.NewNopLogger() }
func (c c32ctx) GetPrevBlockHash(h int64) ([]byte, error) { return c.hash, nil }

type c32node struct {
	nodesexported.ValidatorI
	addr sdk.Address
}

func (n c32node) GetAddress() sdk.Address { return n.addr }

type c32app struct {
	appexported.ApplicationI
	max int64
}

func (a c32app) GetChains() []string            { return []string{"0001"} }
func (a c32app) GetPublicKey() crypto.PublicKey { return c32pub(c32A1) }
func (a c32app) GetMaxRelays() sdk.BigInt       { return sdk.NewInt(a.max) }

type c32reward struct {
	chain  string
	relays sdk.BigInt
	to     sdk.Address
}

type c32keepers struct {
	pc.PosKeeper
	bps     int64
	appMax  int64
	rewards *[]c32reward
}

func (k c32keepers) BlocksPerSession(ctx sdk.Ctx) int64 { return k.bps }
func (k c32keepers) Validator(ctx sdk.Ctx, a sdk.Address) nodesexported.ValidatorI {
	if a.Equals(c32addr(c32D1)) || a.Equals(c32addr(c32D2)) {
		return c32node{addr: a}
	}
	return nil
}
func (k c32keepers) RewardForRelaysPerChain(ctx sdk.Ctx, chain string, relays sdk.BigInt, a sdk.Address) sdk.BigInt {
	*k.rewards = append(*k.rewards, c32reward{chain, relays, a})
	return relays
}
func (k c32keepers) Application(ctx sdk.Ctx, a sdk.Address) appexported.ApplicationI {
	if a.Equals(c32addr(c32A1)) {
		return c32app{max: k.appMax}
	}
	return nil
}
func (k c32keepers) MaxChains(ctx sdk.Ctx) int64                        { return 15 }
func (k c32keepers) GetStakedTokens(ctx sdk.Ctx) sdk.BigInt             { return sdk.ZeroInt() }
func (k c32keepers) TotalTokens(ctx sdk.Ctx) sdk.BigInt                 { return sdk.ZeroInt() }
func (k c32keepers) JailApplication(ctx sdk.Ctx, a sdk.Address)         {}
func (k c32keepers) AllApplications(sdk.Ctx) []appexported.ApplicationI { return nil }

// c32world: pocketcore keeper over a model store, stub POS / application keepers, parameters from
// the parameter table (the same for the current and the session context), the session for
// (A1, 0001, height 5) cached with nodes {D1, C1}.
type c32world struct {
	k       Keeper
	ctx     c32ctx
	ks      c32keepers
	rewards []c32reward
	header  pc.SessionHeader
}

func c32new(H, bps, csw, minProofs int64) *c32world {
	w := &c32world{}
	w.ks = c32keepers{bps: bps, appMax: 20, rewards: &w.rewards}
	v.Param(string(pc.KeyClaimSubmissionWindow), csw)
	v.Param(string(pc.KeyMinimumNumberOfProofs), minProofs)
	v.Param(string(pc.KeySessionNodeCount), int64(2))
	v.Param(string(pc.KeyClaimExpiration), int64(3))
	v.Param(string(pc.KeySupportedBlockchains), []string{"0001", "0021"})
	w.k = Keeper{posKeeper: w.ks, appKeeper: w.ks, storeKey: sdk.NewKVStoreKey("pocketcore"), Cdc: pc.ModuleCdc}
	w.ctx = c32ctx{Ctx: vworld.New(H), hash: []byte("block-hash-of-the-proof-height-00")}
	w.header = pc.SessionHeader{ApplicationPubKey: c32A1, Chain: "0001", SessionBlockHeight: 5}
	pc.GlobalSessionCache = &pc.CacheStorage{Cache: sdk.NewCache(10), DB: modelkv.NewDB(), SealMap: &sync.Map{}}
	pc.SetSession(pc.Session{SessionHeader: w.header, SessionKey: pc.SessionKey("k"), SessionNodes: pc.SessionNodes{c32addr(c32D1), c32addr(c32C1)}}, pc.GlobalSessionCache)
	return w
}

// VerifC32claim: ValidateClaim for a symbolic current height, blocks-per-session, submission
// window, minimum proof count and claimed total, with one arbitrary alteration of the claim
// (evidence type missing, unsupported chain, unknown node, node outside the session, application
// not staked). Accepted only after the session's last block and not after the claim matured,
// from a node of the session, for the staked application on a supported chain, with at least the
// minimum and (once the relay protection is active) at most the application's allowance.
func VerifC32claim() {
	codec.UpgradeFeatureMap = map[string]int64{codec.MaxRelayProtKey: 1}
	H, bps, csw := v.Int64In(1, 100000), v.Int64In(1, 100), v.Int64In(1, 100)
	minProofs, total := v.Int64In(0, 100), v.Int64In(-10, 100)
	w := c32new(H, bps, csw, minProofs)
	claim := pc.MsgClaim{SessionHeader: w.header, TotalProofs: total, FromAddress: c32addr(c32D1), EvidenceType: pc.RelayEvidence}
	alt := v.Choice(6)
	switch alt {
	case 1:
		claim.EvidenceType = 0
	case 2:
		claim.SessionHeader.Chain = "0099"
	case 3:
		claim.FromAddress = c32addr(c32D3)
	case 4:
		claim.FromAddress = c32addr(c32D2)
	case 5:
		claim.SessionHeader.ApplicationPubKey = c32A2
	}
	if w.k.ValidateClaim(w.ctx, claim) != nil {
		return
	}
	v.Reach("claim-accepted")
	v.Assert(alt == 0, "altered-claim-rejected")
	v.Assert(H > 5+bps-1, "session-has-ended")
	v.Assert(H <= 5+csw*bps, "claim-not-yet-mature")
	v.Assert(total >= minProofs, "at-least-the-minimum-number-of-proofs")
	v.Assert(total <= 10, "no-more-relays-than-the-application-allows") // 20 max relays / 1 chain / 2 session nodes
}

// VerifC32proof: a stored claim for n relays (Merkle root built by the real evidence code over n
// concrete relay proofs), then proof messages with an arbitrary target index, optionally a wrong
// leaf or a signer without claim. The reward is paid only for the claimant's proof of the leaf at
// the required pseudorandom index, for exactly the claimed total, and at most once (the claim is
// gone afterwards and a second, identical proof is refused); expired unproved claims are removed
// without payment.
func VerifC32proof() {
	pc.GlobalPocketConfig.ClientBlockSyncAllowance = 10
	n := int64(2 + 2*v.Choice(2)) // 2 or 4 relays
	w := c32new(12, 4, 1, 1)
	ev := pc.Evidence{SessionHeader: w.header, EvidenceType: pc.RelayEvidence, Proofs: pc.Proofs{}}
	for i := int64(0); i < n; i++ {
		ev.Proofs = append(ev.Proofs, pc.RelayProof{Entropy: 100 + i, SessionBlockHeight: 5, ServicerPubKey: c32D1, Blockchain: "0001", RequestHash: c32C1, Signature: c32C1 + c32C1,
			Token: pc.AAT{Version: "0.0.1", ApplicationPublicKey: c32A1, ClientPublicKey: c32C1, ApplicationSignature: c32C1 + c32C1}})
	}
	ev.NumOfProofs = n
	store := &pc.CacheStorage{Cache: sdk.NewCache(10), DB: modelkv.NewDB(), SealMap: &sync.Map{}}
	root := ev.GenerateMerkleRoot(5, n, store)
	claim := pc.MsgClaim{SessionHeader: w.header, MerkleRoot: root, TotalProofs: n, FromAddress: c32addr(c32D1), EvidenceType: pc.RelayEvidence, ExpirationHeight: 30}
	v.Assert(w.k.SetClaim(w.ctx, claim) == nil, "claim-stored")
	required, err := w.k.getPseudorandomIndex(w.ctx, n, w.header, w.ctx)
	v.Assert(err == nil, "required-index-computed")

	idx := v.Choice(int(n))
	mp, leaf := ev.GenerateMerkleProof(5, idx, n)
	msg := pc.MsgProof{MerkleProof: mp, Leaf: leaf, EvidenceType: pc.RelayEvidence}
	alt := v.Choice(3)
	switch alt {
	case 1: // a leaf that is not in the tree
		l := leaf.(pc.RelayProof)
		l.Entropy = 999
		msg.Leaf = l
	case 2: // a signer (servicer key of the leaf) that has no claim
		l := leaf.(pc.RelayProof)
		l.ServicerPubKey = c32D2
		msg.Leaf = l
	}
	_, got, verr := w.k.ValidateProof(w.ctx, msg)
	if verr == nil {
		v.Reach("proof-accepted")
		v.Assert(alt == 0 && int64(idx) == required, "only-the-claimed-leaf-at-the-required-index")
		tokens, xerr := w.k.ExecuteProof(w.ctx, msg, got)
		v.Assert(xerr == nil && len(w.rewards) == 1, "rewarded-once")
		v.Assert(w.rewards[0].relays.Equal(sdk.NewInt(n)) && w.rewards[0].to.Equals(c32addr(c32D1)) && w.rewards[0].chain == "0001" && tokens.Equal(sdk.NewInt(n)), "reward-is-for-the-claimed-total-to-the-claimant")
		_, found := w.k.GetClaim(w.ctx, c32addr(c32D1), w.header, pc.RelayEvidence)
		v.Assert(!found, "claim-removed-after-payment")
		_, _, again := w.k.ValidateProof(w.ctx, msg)
		v.Assert(again != nil, "second-proof-for-the-same-claim-refused")
		return
	}
	v.Reach("proof-refused")
	v.Assert(len(w.rewards) == 0, "no-reward-without-a-valid-proof")
	// the unproved claim stays until it expires and is then removed without payment
	w.ctx.Height = 29
	w.k.DeleteExpiredClaims(w.ctx)
	_, found := w.k.GetClaim(w.ctx, c32addr(c32D1), w.header, pc.RelayEvidence)
	v.Assert(found, "claim-kept-until-expiry")
	w.ctx.Height = 30
	w.k.DeleteExpiredClaims(w.ctx)
	_, found = w.k.GetClaim(w.ctx, c32addr(c32D1), w.header, pc.RelayEvidence)
	v.Assert(!found && len(w.rewards) == 0, "expired-claim-removed-without-payment")
}
