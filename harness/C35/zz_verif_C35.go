//verif:dir x/pocketcore/types
package types

import (
	"encoding/hex"
	"encoding/json"

	"github.com/pokt-network/pocket-core/crypto"
	sdk "github.com/pokt-network/pocket-core/types"
	v "github.com/pokt-network/pocket-core/verifrt"
)

//verif:config VerifC35local native=no idealhash=yes
//verif:config VerifC35bind native=no idealhash=yes


const (
	c35A1 = "a1a1a1a1a1a1a1a1a1a1a1a1a1a1a1a1a1a1a1a1a1a1a1a1a1a1a1a1a1a1a1a1"
	c35A2 = "a2a2a2a2a2a2a2a2a2a2a2a2a2a2a2a2a2a2a2a2a2a2a2a2a2a2a2a2a2a2a2a2"
	c35C1 = "c1c1c1c1c1c1c1c1c1c1c1c1c1c1c1c1c1c1c1c1c1c1c1c1c1c1c1c1c1c1c1c1"
	c35C2 = "c2c2c2c2c2c2c2c2c2c2c2c2c2c2c2c2c2c2c2c2c2c2c2c2c2c2c2c2c2c2c2c2"
	c35D1 = "d1d1d1d1d1d1d1d1d1d1d1d1d1d1d1d1d1d1d1d1d1d1d1d1d1d1d1d1d1d1d1d1"
	c35D2 = "d2d2d2d2d2d2d2d2d2d2d2d2d2d2d2d2d2d2d2d2d2d2d2d2d2d2d2d2d2d2d2d2"
	c35H1 = "7171717171717171717171717171717171717171717171717171717171717171"
	c35H2 = "7272727272727272727272727272727272727272727272727272727272727272"
	c35S1 = "51515151515151515151515151515151515151515151515151515151515151515151515151515151515151515151515151515151515151515151515151515151"
	c35S2 = "52525252525252525252525252525252525252525252525252525252525252525252525252525252525252525252525252525252525252525252525252525252"
	c35G1 = "61616161616161616161616161616161616161616161616161616161616161616161616161616161616161616161616161616161616161616161616161616161"
	c35G2 = "62626262626262626262626262626262626262626262626262626262626262626262626262626262626262626262626262626262626262626262626262626262"
)

func c35raw(s string) []byte {
	bz, _ := hex.DecodeString(s)
	return bz
}

// c35proof: a well-formed relay proof in which `alter` fields (each an arbitrary choice of field
// and of replacement, well- or ill-formed) are altered; entropy and session height are arbitrary.
// String plumbing is concrete, WHICH field carries WHICH value is the solver's choice.
func c35proof(alter int) RelayProof {
	tok := AAT{Version: "0.0.1", ApplicationPublicKey: c35A1, ClientPublicKey: c35C1, ApplicationSignature: c35S1}
	rp := RelayProof{Entropy: v.I64(), SessionBlockHeight: v.I64(), ServicerPubKey: c35D1, Blockchain: "0001", RequestHash: c35H1, Signature: c35G1}
	for i := 0; i < alter; i++ {
		alt := v.Choice(2) == 1
		pick := func(x, y string) string {
			if alt {
				return y
			}
			return x
		}
		switch v.Choice(9) {
		case 0:
			tok.Version = pick("0.0.2", "")
		case 1:
			tok.ApplicationPublicKey = pick(c35A2, c35A1[2:])
		case 2:
			tok.ClientPublicKey = pick(c35C2, "")
		case 3:
			tok.ApplicationSignature = pick(c35S2, c35S1[2:])
		case 4:
			rp.ServicerPubKey = pick(c35D2, c35D1[2:])
		case 5:
			rp.Blockchain = pick("0021", "00zz")
		case 6:
			rp.RequestHash = pick(c35H2, c35H1[4:])
		case 7:
			rp.Signature = pick(c35G2, "zz")
		}
	}
	rp.Token = tok
	return rp
}

// VerifC35local: RelayProof.ValidateLocal (ValidateBasic, AAT.Validate, both signature checks, the
// servicer, chain and height checks) with ideal signatures: accepted only if the token verifies
// under the application key over the token's own content, the proof verifies under the CLIENT key
// named in that token over the proof's own content, the servicer key is this node's, the chain is
// one of the application's and the session height is the expected, positive one.
func VerifC35local() {
	rp := c35proof(1 + v.Tier())
	chains := [][]string{{"0001"}, {"0021"}, {"0001", "0021"}, {}}[v.Choice(4)]
	wantHeight := v.I64()
	self := sdk.Address(crypto.Ed25519PublicKey{}.Address())
	if d1, err := crypto.NewPublicKey(c35D1); err == nil {
		self = sdk.Address(d1.Address())
	}
	if rp.ValidateLocal(chains, 5, wantHeight, self) != nil {
		return
	}
	v.Reach("served")
	tok := rp.Token
	v.Assert(tok.Version == "0.0.1", "token-version-supported")
	// what the application signs: the token without its signature; what the client signs: the proof
	// without its signature and with the token's hash (recomputed here from the fields)
	tokMsg, _ := json.Marshal(AAT{ApplicationPublicKey: tok.ApplicationPublicKey, ClientPublicKey: tok.ClientPublicKey, Version: tok.Version})
	tokHash := Hash(tokMsg)
	v.Assert(len(c35raw(tok.ApplicationPublicKey)) == 32 && len(c35raw(tok.ClientPublicKey)) == 32, "keys-well-formed")
	v.Assert(v.SigVerdict(c35raw(tok.ApplicationPublicKey), tokHash, c35raw(tok.ApplicationSignature)), "token-signed-by-the-application-key")
	rpMsg, _ := json.Marshal(relayProof{Entropy: rp.Entropy, RequestHash: rp.RequestHash, ServicerPubKey: rp.ServicerPubKey,
		Blockchain: rp.Blockchain, SessionBlockHeight: rp.SessionBlockHeight, Token: hex.EncodeToString(tokHash)})
	v.Assert(v.SigVerdict(c35raw(tok.ClientPublicKey), Hash(rpMsg), c35raw(rp.Signature)), "proof-signed-by-the-client-named-in-the-token")
	v.Assert(rp.ServicerPubKey == c35D1, "servicer-key-is-this-node")
	inChains := false
	for _, c := range chains {
		inChains = inChains || c == rp.Blockchain
	}
	v.Assert(inChains, "chain-is-one-of-the-applications")
	v.Assert(v.And(rp.SessionBlockHeight == wantHeight, rp.SessionBlockHeight >= 1), "session-height-is-the-expected-positive-one")
	v.Assert(rp.Entropy >= 0, "entropy-non-negative")
	v.Assert(len(c35raw(rp.RequestHash)) == 32, "request-hash-well-formed")
}

// VerifC35bind: the signed messages bind every field: two proofs (or tokens) that differ in any
// single field have different sign hashes, so a signature obtained for one says nothing about
// the other (SHA3 idealised as injective).
func VerifC35bind() {
	a, b := c35proof(0), c35proof(1)
	same := v.And(a.Entropy == b.Entropy, a.SessionBlockHeight == b.SessionBlockHeight)
	same = v.And(same, a.ServicerPubKey == b.ServicerPubKey && a.Blockchain == b.Blockchain && a.RequestHash == b.RequestHash)
	tokSame := a.Token.Version == b.Token.Version && a.Token.ApplicationPublicKey == b.Token.ApplicationPublicKey && a.Token.ClientPublicKey == b.Token.ClientPublicKey
	v.Assert(v.Iff(a.Token.HashString() == b.Token.HashString(), tokSame), "token-hash-binds-version-and-both-keys")
	v.Assert(v.Iff(a.HashString() == b.HashString(), v.And(same, tokSame)), "proof-hash-binds-every-field-and-the-token")
}

type c35ctx struct {
	sdk.Ctx
	h int64
}

func (c c35ctx) BlockHeight() int64 { return c.h }

// VerifC35meta: the request-level checks of Relay.Validate that precede the session lookup: the
// relay's block height is within the client sync allowance of the node's height and the proof's
// request hash is the hash of THIS payload and metadata.
func VerifC35meta() {
	GlobalPocketConfig.ClientBlockSyncAllowance = int(v.IntIn(0, 10))
	allow := int64(GlobalPocketConfig.ClientBlockSyncAllowance)
	h, rh := v.I64(), v.I64()
	v.Assume(v.And(h >= 0, h < 1<<40))
	err := RelayMeta{BlockHeight: rh}.Validate(c35ctx{h: h})
	v.Assert(v.Iff(err == nil, v.And(rh >= h-allow, rh <= h+allow)), "relay-height-within-the-sync-allowance")
}

//verif:config VerifC35relay native=no

// VerifC35relay: the whole Relay.Validate over the shared relay world (real evidence/session cache
// storages, stub keepers): a well-formed relay with ONE arbitrary alteration (payload, request
// hash, application key, chain, servicer key, session height, relay height, or none), this node
// in or out of the session. Served only if the request hash is the hash of this payload, the
// token's application is the staked one, the chain is hosted and staked for, the session height is
// the requested one, this node is in the session, and both signature verdicts were positive.
func VerifC35relay() {
	rwInit()
	GlobalPocketConfig.ClientBlockSyncAllowance = 10
	inSession := v.Choice(2) == 1
	w := rwNew(5, inSession)
	r := rwRelay(7, "x")
	askHeight := int64(5)
	switch v.Choice(9) {
	case 0:
		r.Payload.Data = "y" // payload changed after the client hashed and signed the request
	case 1:
		r.Proof.RequestHash = c35H2
	case 2:
		r.Proof.Token.ApplicationPublicKey = rwA2 // not a staked application
	case 3:
		r.Proof.Blockchain = "0021" // neither hosted nor staked for
	case 4:
		r.Proof.ServicerPubKey = rwD2
	case 5:
		r.Proof.SessionBlockHeight = 9
	case 6:
		askHeight = 9
	case 7:
		r.Meta.BlockHeight = 100
	}
	_, err := r.Validate(rwCtx{h: 6}, w.k, w.k, w.k, w.hb, askHeight, w.node)
	if err != nil {
		return
	}
	v.Reach("served")
	rp := r.Proof
	v.Assert(rp.RequestHash == rwRelay(7, r.Payload.Data).Proof.RequestHash, "request-hash-matches-the-payload")
	v.Assert(rp.Token.ApplicationPublicKey == rwA1, "application-is-staked")
	v.Assert(rp.Blockchain == "0001", "chain-hosted-and-staked-for")
	v.Assert(rp.SessionBlockHeight == 5 && askHeight == 5, "session-height-is-the-sessions")
	v.Assert(rp.ServicerPubKey == rwD1 && inSession, "servicer-is-this-node-and-in-the-session")
	v.Assert(r.Meta.BlockHeight == 6, "relay-height-in-tolerance")
	v.Assert(v.SigVerdict(c35raw(rp.Token.ApplicationPublicKey), rp.Token.Hash(), c35raw(rp.Token.ApplicationSignature)), "token-signature-verified")
	v.Assert(v.SigVerdict(c35raw(rp.Token.ClientPublicKey), rp.Hash(), c35raw(rp.Signature)), "client-signature-verified")
}
