//verif:dir store/rootmulti
package rootmulti

import (
	"bytes"

	"github.com/pokt-network/pocket-core/store/iavl"
	sdk "github.com/pokt-network/pocket-core/types"
	"github.com/pokt-network/pocket-core/store/types"
	v "github.com/pokt-network/pocket-core/verifrt"
	"github.com/pokt-network/pocket-core/verifrt/modelkv"
)

//verif:config VerifC08 maxpaths=200000

// VerifC08: three blocks of arbitrary writes are committed, then the node is
// rolled back to an arbitrary earlier height h (RollbackVersion) and restarted. It reports height
// h with block h's app hash and holds exactly block h's contents; no later version can be loaded;
// re-applying the same blocks reproduces the original app hashes and contents.
func VerifC08() {
	n := 3
	// keys from a small concrete set (so that tree shapes do not multiply the paths; 2 keys quick,
	// 3 thorough), arbitrary values, set or delete, store a (either store in thorough); contents are
	// compared at one probe key: each of the keys or an absent one
	keys := [][]byte{{0x10}, {0x20}}
	if v.Tier() > 0 {
		keys = append(keys, []byte{0x30})
	}
	db := modelkv.NewUnorderedDB()
	rs := mwMustOpen(db)
	ref := mwNewRef()
	var blocks [][]mwOp
	var ids []types.CommitID
	var refs []mwRef
	for i := 0; i < n; i++ {
		b := []mwOp{{toB: v.Tier() > 0 && v.Choice(2) == 1, del: v.Choice(2) == 1, k: keys[v.Choice(len(keys))], val: v.Bytes(1)}}
		mwApply(rs, b)
		ref.apply(b)
		blocks, ids, refs = append(blocks, b), append(ids, rs.Commit()), append(refs, ref.clone())
	}
	h := 1 + v.Choice(n-1) // rollback target below the latest height
	at := append(append([][]byte{}, keys...), []byte{0x15})[v.Choice(len(keys)+1)]
	v.Assert(rs.RollbackVersion(int64(n)) != nil, "rollback-to-the-current-height-refused")
	v.Assert(rs.RollbackVersion(int64(h)) == nil, "rollback-succeeds")

	re := mwMustOpen(db)
	got := re.LastCommitID()
	v.Assert(got.Version == int64(h) && bytes.Equal(got.Hash, ids[h-1].Hash), "restart-reports-the-target-height-and-its-app-hash")
	v.Assert(mwAgreesAt(re.GetKVStore(mwA), re.GetKVStore(mwB), refs[h-1], at), "restart-holds-exactly-the-target-heights-contents")
	probe, _ := mwOpen(db)
	v.Assert(probe.LoadVersion(int64(h+1)) != nil, "no-later-version-remains-loadable")
	for _, key := range []*sdk.KVStoreKey{mwA, mwB} {
		st := re.GetCommitStore(key).(*iavl.Store)
		v.Assert(st.VersionExists(int64(h)) && !st.VersionExists(int64(h+1)), "substores-keep-the-target-version-and-nothing-later")
	}

	for i := h; i < n; i++ {
		mwApply(re, blocks[i])
		id := re.Commit()
		v.Assert(id.Version == int64(i+1) && bytes.Equal(id.Hash, ids[i].Hash), "re-applied-block-reproduces-its-app-hash")
	}
	v.Assert(mwAgreesAt(re.GetKVStore(mwA), re.GetKVStore(mwB), refs[n-1], at), "re-applied-blocks-reproduce-the-contents")
}
