//verif:dir x/pocketcore/types
package types

import (
	"github.com/pokt-network/pocket-core/codec"
	sdk "github.com/pokt-network/pocket-core/types"
	"github.com/pokt-network/pocket-core/x/nodes/exported"
	v "github.com/pokt-network/pocket-core/verifrt"
)

//verif:config VerifC33 idealhash=yes cut=types.NewSessionNodes:5

type c33node struct {
	exported.ValidatorI
	addr   sdk.Address
	jailed bool
	chains []string
}

func (n c33node) IsJailed() bool          { return n.jailed }
func (n c33node) IsStaked() bool          { return true } // a jailed node keeps its staked status
func (n c33node) GetStatus() sdk.StakeStatus { return sdk.Staked }
func (n c33node) GetAddress() sdk.Address { return n.addr }
func (n c33node) GetChains() []string     { return n.chains }

type c33pos struct {
	PosKeeper
	nodes []c33node
	calls int
}

func (p *c33pos) MaxChains(ctx sdk.Ctx) int64 { return 2 }
func (p *c33pos) GetValidatorsByChain(ctx sdk.Ctx, chain string) ([]sdk.Address, int) {
	var out []sdk.Address
	for _, n := range p.nodes {
		out = append(out, n.addr)
	}
	return out, len(out)
}
func (p *c33pos) Validator(ctx sdk.Ctx, a sdk.Address) exported.ValidatorI {
	for _, n := range p.nodes {
		if n.addr.Equals(a) {
			return n
		}
	}
	return nil
}

func c33addr(i int) sdk.Address {
	a := make(sdk.Address, 20)
	for j := range a {
		a[j] = byte(0x10 + i)
	}
	return a
}

type c33ctx struct {
	sdk.Ctx
	h int64
}

func (c c33ctx) BlockHeight() int64 { return c.h }

// VerifC33: session node selection over an arbitrary candidate population (sizes around the session
// node count; each candidate arbitrarily jailed / lacking the chain / over the chain limit at the
// reference height) and an arbitrary session key: a successful selection has exactly the configured
// number of nodes, pairwise distinct and all eligible; it fails only when fewer eligible nodes
// exist; the same inputs give the same nodes.
func VerifC33() {
	codec.UpgradeFeatureMap = map[string]int64{codec.EnforceMaxChainsUpdateKey: 1}
	const k = 2
	n := 1 + v.Choice(3) // 1..3 candidates (four candidates did not finish within 50 minutes; outside the claim)
	pos := &c33pos{}
	eligible := 0
	for i := 0; i < n; i++ {
		nd := c33node{addr: c33addr(i)}
		switch v.Choice(4) {
		case 0:
			nd.chains = []string{"0001"}
		case 1:
			nd.chains, nd.jailed = []string{"0001"}, true
		case 2:
			nd.chains = []string{"0021"} // not staked for the session's chain any more
		case 3:
			nd.chains = []string{"0001", "0021", "0040"} // over the chain limit
		}
		if len(nd.chains) <= 2 && !nd.jailed && nd.chains[0] == "0001" {
			eligible++
		}
		pos.nodes = append(pos.nodes, nd)
	}
	key := SessionKey(v.Bytes(32))
	// cut: with an adversarial ideal hash the draw may repeat an already drawn index for ever; paths
	// with more than R repeats are outside the claim
	v.Outside("session draws that re-draw an already drawn candidate more than the unwinding bound allows")
	ctx := c33ctx{h: 100}
	got, err := NewSessionNodes(ctx, ctx, pos, "0001", key, k)
	if err != nil {
		v.Assert(eligible < k, "fails-only-when-too-few-eligible")
		return
	}
	v.Reach("selected")
	v.Assert(len(got) == k, "exactly-k-nodes")
	v.Assert(!got[0].Equals(got[1]), "distinct")
	for _, a := range got {
		node := pos.Validator(ctx, a).(c33node)
		v.Assert(!node.jailed && node.chains[0] == "0001" && len(node.chains) <= 2, "every-node-eligible")
	}
	again, err2 := NewSessionNodes(ctx, ctx, pos, "0001", key, k)
	v.Assert(err2 == nil && again[0].Equals(got[0]) && again[1].Equals(got[1]), "same-inputs-same-session")
}
