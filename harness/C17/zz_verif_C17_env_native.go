//verif:dir x/auth/keeper
//go:build verifnative

package keeper

import "github.com/pokt-network/pocket-core/codec"

// native: the real codec, as the package's own tests build it
func verifCodec() *codec.Codec { return makeTestCodec() }
