//verif:dir x/auth/keeper
package keeper

import (
	"math/big"

	sdk "github.com/pokt-network/pocket-core/types"
	"github.com/pokt-network/pocket-core/x/auth/types"
	v "github.com/pokt-network/pocket-core/verifrt"
	"github.com/pokt-network/pocket-core/verifrt/vworld"
)

const c17max = "1000000000000000000000000000000" // 10^30

var (
	c17A = sdk.Address([]byte("account-address-aaaa"))
	c17B = sdk.Address([]byte("account-address-bbbb"))
	c17C = sdk.Address([]byte("account-address-cccc")) // no account record
)

type c17world struct {
	k     Keeper
	ctx   *vworld.Ctx
	addrs []sdk.Address // every address whose balance is tracked
}

func c17coins(amt *big.Int) sdk.Coins {
	// built directly: a zero or negative amount gives an invalid coin set, which the bank must reject
	return sdk.Coins{sdk.Coin{Denom: sdk.DefaultStakeDenom, Amount: sdk.NewIntFromBigInt(amt)}}
}

func (w *c17world) bal(a sdk.Address) *big.Int {
	return w.k.GetCoins(w.ctx, a).AmountOf(sdk.DefaultStakeDenom).BigInt()
}

func (w *c17world) supply() *big.Int {
	return w.k.GetSupply(w.ctx).GetTotal().AmountOf(sdk.DefaultStakeDenom).BigInt()
}

func (w *c17world) sum() *big.Int {
	s := new(big.Int)
	for _, a := range w.addrs {
		s = new(big.Int).Add(s, w.bal(a))
	}
	return s
}

// c17new builds an arbitrary valid bank state: two user accounts, an absent one, a module account
// that may mint and burn and one that may not; supply = sum of balances.
func c17new() *c17world {
	w := &c17world{ctx: vworld.New(v.Int64In(1, 1000000))}
	perms := map[string][]string{"minter": {types.Minter, types.Burner}, "plain": nil}
	w.k = Keeper{Cdc: verifCodec(), storeKey: sdk.NewKVStoreKey(types.StoreKey), permAddrs: map[string]types.PermissionsForAddress{}}
	for name, p := range perms {
		w.k.permAddrs[name] = types.NewPermissionsForAddress(name, p)
	}
	total := new(big.Int)
	set := func(acc interface {
		SetCoins(sdk.Coins) error
	}, store func()) {
		amt := v.BigIn("0", c17max)
		_ = acc.SetCoins(sdk.NewCoins(sdk.NewCoin(sdk.DefaultStakeDenom, sdk.NewIntFromBigInt(amt))))
		store()
		total = new(big.Int).Add(total, amt)
	}
	for _, a := range []sdk.Address{c17A, c17B} {
		acc := types.NewBaseAccountWithAddress(a)
		set(&acc, func() { w.k.SetAccount(w.ctx, &acc) })
	}
	for _, name := range []string{"minter", "plain"} {
		macc := types.NewEmptyModuleAccount(name, perms[name]...)
		set(macc, func() { w.k.SetModuleAccount(w.ctx, macc) })
	}
	w.k.SetSupply(w.ctx, types.NewSupply(sdk.NewCoins(sdk.NewCoin(sdk.DefaultStakeDenom, sdk.NewIntFromBigInt(total)))))
	w.addrs = []sdk.Address{c17A, c17B, c17C, w.k.GetModuleAddress("minter"), w.k.GetModuleAddress("plain")}
	return w
}

func c17eq(a, b *big.Int) bool { return a.Cmp(b) == 0 }

// VerifC17: inductive step over the bank — from any state with supply = sum of balances, one
// arbitrary bank operation keeps the equality; only mint/burn change the supply, by exactly the
// amount; a failing operation changes nothing; a transfer moves exactly the amount (C18).
func VerifC17() {
	w := c17new()
	v.Assert(c17eq(w.sum(), w.supply()), "pre-invariant")
	pre := map[string]*big.Int{}
	for _, a := range w.addrs {
		pre[a.String()] = w.bal(a)
	}
	preSupply := w.supply()
	amt := v.BigIn("-5", c17max)
	coins := c17coins(amt)
	users := []sdk.Address{c17A, c17B, c17C}
	mods := []string{"minter", "plain", "missing"}
	var err sdk.Error
	var from, to sdk.Address
	dSupply := new(big.Int)
	switch v.Choice(6) {
	case 0:
		from, to = users[v.Choice(3)], users[v.Choice(3)]
		err = w.k.SendCoins(w.ctx, from, to, coins)
	case 1:
		m := mods[v.Choice(3)]
		from, to = w.k.GetModuleAddress(m), users[v.Choice(3)]
		err = w.k.SendCoinsFromModuleToAccount(w.ctx, m, to, coins)
	case 2:
		m := mods[v.Choice(2)]
		from, to = users[v.Choice(3)], w.k.GetModuleAddress(m)
		err = w.k.SendCoinsFromAccountToModule(w.ctx, from, m, coins)
	case 3:
		m1, m2 := mods[v.Choice(3)], mods[v.Choice(2)]
		from, to = w.k.GetModuleAddress(m1), w.k.GetModuleAddress(m2)
		err = w.k.SendCoinsFromModuleToModule(w.ctx, m1, m2, coins)
	case 4:
		m := mods[v.Choice(3)]
		to = w.k.GetModuleAddress(m)
		err = w.k.MintCoins(w.ctx, m, coins)
		dSupply = amt
		if err == nil {
			v.Assert(m == "minter", "mint-needs-permission")
		}
	case 5:
		m := mods[v.Choice(3)]
		from = w.k.GetModuleAddress(m)
		err = w.k.BurnCoins(w.ctx, m, coins)
		dSupply = new(big.Int).Neg(amt)
		if err == nil {
			v.Assert(m == "minter", "burn-needs-permission")
		}
	}
	v.Assert(c17eq(w.sum(), w.supply()), "supply-equals-sum-of-balances")
	if err != nil {
		for _, a := range w.addrs {
			v.Assert(c17eq(w.bal(a), pre[a.String()]), "failure-changes-no-balance")
		}
		v.Assert(c17eq(w.supply(), preSupply), "failure-changes-no-supply")
		return
	}
	v.Assert(amt.Sign() > 0, "success-needs-positive-amount")
	v.Assert(c17eq(w.supply(), new(big.Int).Add(preSupply, dSupply)), "supply-changes-only-by-mint-burn")
	for _, a := range w.addrs {
		want := pre[a.String()]
		if from != nil && a.Equals(from) {
			want = new(big.Int).Sub(want, amt)
		}
		if to != nil && a.Equals(to) {
			want = new(big.Int).Add(want, amt)
		}
		v.Assert(c17eq(w.bal(a), want), "exact-movement")
		v.Assert(w.bal(a).Sign() >= 0, "no-negative-balance")
		v.Assert(w.k.GetCoins(w.ctx, a).IsValid(), "balances-stay-valid")
	}
	v.Observe("supply", w.supply())
}
