//verif:dir x/auth/keeper
//go:build !verifnative

package keeper

import "github.com/pokt-network/pocket-core/codec"

// engine: every codec call is served by the opaque codec, the object itself is never inspected
func verifCodec() *codec.Codec { return new(codec.Codec) }
