//verif:dir x/nodes/keeper
package keeper

import (
	"math/big"

	"github.com/pokt-network/pocket-core/codec"
	sdk "github.com/pokt-network/pocket-core/types"
	"github.com/pokt-network/pocket-core/x/nodes/types"
	v "github.com/pokt-network/pocket-core/verifrt"
)

//verif:config VerifC27stake native=no
//verif:config VerifC27relays native=no
//verif:config VerifC27burn native=no
//verif:config VerifC27grid unwind=2000 maxdecisions=100000

const c27FracPow = "(github.com/pokt-network/pocket-core/types.BigDec).FracPow"

// c27weight stands in for BigDec.FracPow inside the reward/burn computations: an ARBITRARY
// non-negative, non-decreasing function of the bin (the contract VerifC27grid checks on the real
// FracPow over the parameter grid). It records the bins it was asked for; equal bins get equal
// values, larger bins get values at least as large.
type c27weight struct {
	bins []*big.Int
	vals []*big.Int // value * 10^18
}

func (cw *c27weight) standIn(d sdk.BigDec, power sdk.BigDec, denom int64) sdk.BigDec {
	bin := d.TruncateInt().BigInt()
	val := v.BigIn("0", "1000000000000000000000000") // [0, 10^6] with 18 decimals
	for i, b := range cw.bins {
		c := b.Cmp(bin)
		v.Assume(v.Implies(c == 0, val.Cmp(cw.vals[i]) == 0))
		v.Assume(v.Implies(c < 0, val.Cmp(cw.vals[i]) >= 0))
		v.Assume(v.Implies(c > 0, val.Cmp(cw.vals[i]) <= 0))
	}
	cw.bins, cw.vals = append(cw.bins, bin), append(cw.vals, val)
	return sdk.NewDecFromBigIntWithPrec(val, 18)
}

func c27world(m, ceiling int64) *nworld {
	w := nwNew(false)
	codec.UpgradeFeatureMap[codec.RSCALKey] = 1 // stake-weighted rewards (PIP-22) active
	p := w.params
	p.ServicerStakeFloorMultiplier = m
	p.ServicerStakeWeightCeiling = ceiling
	p.ServicerStakeWeightMultiplier = sdk.NewDecWithPrec(int64(1+v.Choice(3)), 0) // 1, 2, 3
	p.ServicerStakeFloorMultiplierExponent = sdk.NewDecWithPrec(50, 2)
	w.setParams(p)
	return w
}

// VerifC27stake: calculateRewardRewardPip22 for two arbitrary stakes s1 <= s2 (same relays and
// multiplier, symbolic floor multiplier m >= 1 and ceiling >= m): the reward is never negative,
// never decreases with the stake, and no longer changes once the stake reached the ceiling; the
// bin handed to the weight function is floor(min(stake, ceiling)/m).
func VerifC27stake() {
	m := v.Int64In(1, 100000000000)
	ceiling := v.Int64In(1, 1000000000000)
	v.Assume(ceiling >= m)
	w := c27world(m, ceiling)
	cw := &c27weight{}
	v.Replace(c27FracPow, cw.standIn)
	s1, s2 := v.BigIn("0", "5000000000000"), v.BigIn("0", "5000000000000")
	v.Assume(s1.Cmp(s2) <= 0)
	c := int64(1 + 999*v.Choice(2)) // relays x multiplier: 1x1 or 1000x1 (the product is what matters)
	r1 := w.k.calculateRewardRewardPip22(w.ctx, sdk.NewInt(c), sdk.NewIntFromBigInt(s1), sdk.NewInt(1)).BigInt()
	r2 := w.k.calculateRewardRewardPip22(w.ctx, sdk.NewInt(c), sdk.NewIntFromBigInt(s2), sdk.NewInt(1)).BigInt()
	v.Assert(len(cw.bins) == 2, "weight-function-consulted-once-per-reward")
	M, C := big.NewInt(m), big.NewInt(ceiling)
	want := func(s *big.Int) *big.Int {
		x := s
		if x.Cmp(C) > 0 {
			x = C
		}
		return new(big.Int).Quo(x, M)
	}
	v.Assert(cw.bins[0].Cmp(want(s1)) == 0 && cw.bins[1].Cmp(want(s2)) == 0, "bin-is-floor-of-capped-stake-over-multiplier")
	v.Assert(r1.Sign() >= 0 && r2.Sign() >= 0, "reward-never-negative")
	v.Assert(r1.Cmp(r2) <= 0, "reward-never-decreases-with-stake")
	v.Assert(v.Implies(s1.Cmp(C) >= 0, r1.Cmp(r2) == 0), "reward-constant-beyond-the-ceiling")
}

// VerifC27relays: for a fixed stake the reward never decreases when the relay count or the
// multiplier increases (weight: an arbitrary value of the stand-in).
func VerifC27relays() {
	w := c27world(15000000000, 60000000000)
	cw := &c27weight{}
	v.Replace(c27FracPow, cw.standIn)
	stake := sdk.NewInt(15000000000 * int64(v.Choice(6)))
	n1, n2 := v.BigIn("0", "1000000000"), v.BigIn("0", "1000000000")
	v.Assume(n1.Cmp(n2) <= 0)
	mult := sdk.NewInt(int64(1 + 999*v.Choice(2)))
	r1 := w.k.calculateRewardRewardPip22(w.ctx, sdk.NewIntFromBigInt(n1), stake, mult).BigInt()
	r2 := w.k.calculateRewardRewardPip22(w.ctx, sdk.NewIntFromBigInt(n2), stake, mult).BigInt()
	v.Assert(r1.Sign() >= 0 && r1.Cmp(r2) <= 0, "reward-never-decreases-with-relays")
}

const c27simpleSlash = "(github.com/pokt-network/pocket-core/x/nodes/keeper.Keeper).simpleSlash"

// VerifC27burn: BurnForChallenge for two validators' stakes s1 <= s2: the amount handed to the
// slashing step is never negative, never decreases with the stake and is constant from the
// ceiling on.
func VerifC27burn() {
	m := int64(15000000000)
	ceiling := int64(60000000000)
	w := c27world(m, ceiling)
	cw := &c27weight{}
	v.Replace(c27FracPow, cw.standIn)
	var burned []*big.Int
	v.Replace(c27simpleSlash, func(k Keeper, ctx sdk.Ctx, addr sdk.Address, amount sdk.BigInt) {
		burned = append(burned, amount.BigInt())
	})
	s1, s2 := v.BigIn("1", "200000000000"), v.BigIn("1", "200000000000")
	v.Assume(s1.Cmp(s2) <= 0)
	for i, s := range []*big.Int{s1, s2} {
		val := types.Validator{Address: w.addrs[i], PublicKey: w.pks[i], ServiceURL: "https://n:443", Chains: []string{nwChains[0]},
			Status: sdk.Staked, StakedTokens: sdk.NewIntFromBigInt(s), OutputAddress: w.out}
		w.k.SetValidator(w.ctx, val)
	}
	w.k.BurnForChallenge(w.ctx, sdk.NewInt(10), w.addrs[0])
	w.k.BurnForChallenge(w.ctx, sdk.NewInt(10), w.addrs[1])
	v.Assert(len(burned) == 2, "both-burns-computed")
	v.Assert(burned[0].Sign() >= 0 && burned[1].Sign() >= 0, "burn-never-negative")
	beyond := s1.Cmp(big.NewInt(ceiling)) >= 0
	v.AssertK(burned[0].Cmp(burned[1]) <= 0, "burn-never-decreases-with-stake", v.Known("C27-K1", s2.Cmp(big.NewInt(ceiling)) > 0 && new(big.Int).Mod(s2, big.NewInt(m)).Sign() != 0))
	v.AssertK(v.Implies(beyond, burned[0].Cmp(burned[1]) == 0), "burn-constant-beyond-the-ceiling", v.Known("C27-K1b", new(big.Int).Mod(s1, big.NewInt(m)).Cmp(new(big.Int).Mod(s2, big.NewInt(m))) != 0))
}

// VerifC27grid: the real FracPow/ApproxRoot/Power on the parameter grid: bins 0..B, exponents
// e/100. Every evaluation terminates (within the unwinding bound, i.e. ApproxRoot's Newton
// iteration stops), is non-negative and does not decrease from one bin to the next. The values are
// concrete: this harness is decided by exhaustive evaluation of the finite grid inside the engine
// (one path per exponent), not by a solver query; it discharges the contract c27weight assumes.
func VerifC27grid() {
	exps := []int64{0, 1, 25, 50, 75, 99, 100}
	B := int64(5)
	if v.Tier() > 0 {
		exps = nil
		for e := int64(0); e <= 100; e++ {
			exps = append(exps, e)
		}
		B = 64
	}
	e := exps[v.Choice(len(exps))]
	prev := sdk.ZeroDec()
	for b := int64(0); b <= B; b++ {
		w := c27pow(b, e)
		v.Assert(!w.IsNegative(), "weight-never-negative")
		v.Assert(b == 0 || w.GTE(prev), "weight-never-decreases-with-the-bin")
		prev = w
	}
}

func c27pow(bin, e int64) sdk.BigDec {
	return sdk.NewDec(bin).FracPow(sdk.NewDecWithPrec(e, 2), Pip22ExponentDenominator)
}
