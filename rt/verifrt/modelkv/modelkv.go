// Package modelkv is the environment model used by the store harnesses: a sorted slice of
// (key,value) pairs implementing store/types.KVStore and tm-db's DB/Batch/Iterator.  It is
// ordinary Go, interpreted by the engine (keys and values may hold symbolic bytes) and compiled
// natively for replay; setup differential-tests it against tm-db's MemDB.
package modelkv

import (
	"bytes"
	"io"

	"github.com/pokt-network/pocket-core/store/types"
	dbm "github.com/tendermint/tm-db"
)

type KV struct {
	K, V []byte
}

type Store struct {
	Items  []KV // sorted by K, no duplicates (insertion order when Unordered)
	Writes int  // number of mutating calls (Set/Delete), for "untouched" assertions
	// Unordered keeps Items in insertion order and finds keys by equality only; the order is
	// established when (and only for the part of the key space that) an iterator asks for it. The
	// observable behaviour is the same; it avoids ordering case splits between keys that are
	// symbolic hashes (the IAVL node database), which nothing ever iterates over.
	Unordered bool
}

func New() *Store { return &Store{} }

func clone(b []byte) []byte {
	if b == nil {
		return nil
	}
	c := make([]byte, len(b))
	copy(c, b)
	return c
}

// find returns the position of key, or where it would be inserted.
func (s *Store) find(key []byte) (int, bool) {
	if s.Unordered {
		for i := range s.Items {
			if bytes.Equal(s.Items[i].K, key) {
				return i, true
			}
		}
		return len(s.Items), false
	}
	for i := range s.Items {
		c := bytes.Compare(s.Items[i].K, key)
		if c == 0 {
			return i, true
		}
		if c > 0 {
			return i, false
		}
	}
	return len(s.Items), false
}

func (s *Store) GetRaw(key []byte) []byte {
	if i, ok := s.find(key); ok {
		return clone(s.Items[i].V)
	}
	return nil
}

func (s *Store) SetRaw(key, value []byte) {
	s.Writes++
	i, ok := s.find(key)
	if ok {
		s.Items[i].V = clone(value)
		return
	}
	s.Items = append(s.Items, KV{})
	copy(s.Items[i+1:], s.Items[i:])
	s.Items[i] = KV{clone(key), clone(value)}
}

func (s *Store) DeleteRaw(key []byte) {
	s.Writes++
	if i, ok := s.find(key); ok {
		s.Items = append(s.Items[:i], s.Items[i+1:]...)
	}
}

// Snapshot returns a deep copy of the contents.
func (s *Store) Snapshot() []KV {
	out := make([]KV, len(s.Items))
	for i, it := range s.Items {
		out[i] = KV{clone(it.K), clone(it.V)}
	}
	return out
}

// InDomain mirrors dbm.IsKeyInDomain.
func InDomain(key, start, end []byte) bool {
	if bytes.Compare(key, start) < 0 {
		return false
	}
	if end != nil && bytes.Compare(end, key) <= 0 {
		return false
	}
	return true
}

// Range returns copies of the pairs with start <= K < end (nil = unbounded), ascending or
// descending.
func (s *Store) Range(start, end []byte, reverse bool) []KV {
	var out []KV
	for _, it := range s.Items {
		if InDomain(it.K, start, end) {
			out = append(out, KV{clone(it.K), clone(it.V)})
		}
	}
	if s.Unordered { // insertion sort of the selected pairs
		for i := 1; i < len(out); i++ {
			for j := i; j > 0 && bytes.Compare(out[j-1].K, out[j].K) > 0; j-- {
				out[j-1], out[j] = out[j], out[j-1]
			}
		}
	}
	if reverse {
		for i, j := 0, len(out)-1; i < j; i, j = i+1, j-1 {
			out[i], out[j] = out[j], out[i]
		}
	}
	return out
}

// ---- store/types.KVStore ----

func (s *Store) GetStoreType() types.StoreType { return types.StoreTypeDB }
func (s *Store) CacheWrap() types.CacheWrap   { panic("modelkv: CacheWrap not used") }
func (s *Store) CacheWrapWithTrace(w io.Writer, tc types.TraceContext) types.CacheWrap {
	panic("modelkv: CacheWrapWithTrace not used")
}
func (s *Store) Get(key []byte) ([]byte, error) { return s.GetRaw(key), nil }
func (s *Store) Has(key []byte) (bool, error)   { _, ok := s.find(key); return ok, nil }
func (s *Store) Set(key, value []byte) error    { s.SetRaw(key, value); return nil }
func (s *Store) Delete(key []byte) error        { s.DeleteRaw(key); return nil }
func (s *Store) Iterator(start, end []byte) (types.Iterator, error) {
	return &Iter{items: s.Range(start, end, false), start: start, end: end}, nil
}
func (s *Store) ReverseIterator(start, end []byte) (types.Iterator, error) {
	return &Iter{items: s.Range(start, end, true), start: start, end: end}, nil
}

// ---- dbm.DB ----

type DB struct{ *Store }

func NewDB() DB { return DB{New()} }

// NewUnorderedDB is a DB over an Unordered store (see Store.Unordered).
func NewUnorderedDB() DB { return DB{&Store{Unordered: true}} }

func (d DB) SetSync(k, v []byte) error { d.SetRaw(k, v); return nil }
func (d DB) DeleteSync(k []byte) error { d.DeleteRaw(k); return nil }
func (d DB) Iterator(start, end []byte) (dbm.Iterator, error) {
	return &Iter{items: d.Range(start, end, false), start: start, end: end}, nil
}
func (d DB) ReverseIterator(start, end []byte) (dbm.Iterator, error) {
	return &Iter{items: d.Range(start, end, true), start: start, end: end}, nil
}
func (d DB) Close() error             { return nil }
func (d DB) Print() error             { return nil }
func (d DB) Stats() map[string]string { return nil }
func (d DB) NewBatch() dbm.Batch      { return &Batch{db: d} }

type op struct {
	del  bool
	k, v []byte
}

type Batch struct {
	db  DB
	ops []op
}

func (b *Batch) Set(k, v []byte)   { b.ops = append(b.ops, op{false, clone(k), clone(v)}) }
func (b *Batch) Delete(k []byte)   { b.ops = append(b.ops, op{true, clone(k), nil}) }
func (b *Batch) Write() error {
	for _, o := range b.ops {
		if o.del {
			b.db.DeleteRaw(o.k)
		} else {
			b.db.SetRaw(o.k, o.v)
		}
	}
	b.ops = nil
	return nil
}
func (b *Batch) WriteSync() error { return b.Write() }
func (b *Batch) Close()           { b.ops = nil }

// ---- iterator over a snapshot ----

type Iter struct {
	items      []KV
	pos        int
	start, end []byte
}

func (it *Iter) Domain() ([]byte, []byte) { return it.start, it.end }
func (it *Iter) Valid() bool              { return it.pos < len(it.items) }
func (it *Iter) Next() {
	if !it.Valid() {
		panic("modelkv: Next on invalid iterator")
	}
	it.pos++
}
func (it *Iter) Key() []byte {
	if !it.Valid() {
		panic("modelkv: Key on invalid iterator")
	}
	return it.items[it.pos].K
}
func (it *Iter) Value() []byte {
	if !it.Valid() {
		panic("modelkv: Value on invalid iterator")
	}
	return it.items[it.pos].V
}
func (it *Iter) Error() error { return nil }
func (it *Iter) Close()       {}

// CrashDB is a DB whose process stops after a given number of durable write operations (each
// Set/Delete outside a batch and each batch Write counts as one atomic operation, as with
// LevelDB): once the budget is used up, further writes never reach the store. Reads are served
// from what did reach it. Budget < 0 means no crash.
type CrashDB struct {
	DB
	Budget *int
	Ops    *int // durable write operations attempted so far
}

func NewCrashDB(inner DB, budget int) CrashDB {
	b, o := budget, 0
	return CrashDB{DB: inner, Budget: &b, Ops: &o}
}

func (d CrashDB) alive() bool {
	*d.Ops++
	if *d.Budget < 0 {
		return true
	}
	if *d.Budget == 0 {
		return false
	}
	*d.Budget--
	return true
}

func (d CrashDB) Set(k, v []byte) error {
	if d.alive() {
		d.SetRaw(k, v)
	}
	return nil
}
func (d CrashDB) SetSync(k, v []byte) error { return d.Set(k, v) }
func (d CrashDB) Delete(k []byte) error {
	if d.alive() {
		d.DeleteRaw(k)
	}
	return nil
}
func (d CrashDB) DeleteSync(k []byte) error { return d.Delete(k) }
func (d CrashDB) NewBatch() dbm.Batch       { return &crashBatch{Batch: Batch{db: d.DB}, d: d} }

type crashBatch struct {
	Batch
	d CrashDB
}

func (b *crashBatch) Write() error {
	if b.d.alive() {
		return b.Batch.Write()
	}
	return nil
}
func (b *crashBatch) WriteSync() error { return b.Write() }
