// Package vworld provides the harness context used by the keeper-level harnesses: an sdk.Ctx
// whose stores are model KV stores (one per store key), with harness-chosen height, time and chain
// id. It is ordinary Go, used unchanged in the engine and in native replay. Methods that the
// keepers under test do not call are left to the embedded nil interface (calling one is reported).
package vworld

import (
	"time"

	"github.com/pokt-network/pocket-core/codec"
	sdk "github.com/pokt-network/pocket-core/types"
	"github.com/pokt-network/pocket-core/verifrt/modelkv"
	abci "github.com/tendermint/tendermint/abci/types"
	"github.com/tendermint/tendermint/libs/log"
)

type Ctx struct {
	sdk.Ctx
	Stores map[string]*modelkv.Store
	Height int64
	Time   time.Time
	Chain  string
	Check  bool
	EM     *sdk.EventManager
	Prev   bool
	Cons   *abci.ConsensusParams
}

func New(height int64) *Ctx {
	return &Ctx{Stores: map[string]*modelkv.Store{}, Height: height, Chain: "verif-chain", EM: sdk.NewEventManager()}
}

func (c *Ctx) Store(name string) *modelkv.Store {
	s, ok := c.Stores[name]
	if !ok {
		s = modelkv.New()
		c.Stores[name] = s
	}
	return s
}

func (c *Ctx) KVStore(key sdk.StoreKey) sdk.KVStore        { return c.Store(key.Name()) }
func (c *Ctx) TransientStore(key sdk.StoreKey) sdk.KVStore { return c.Store(key.Name()) }
func (c *Ctx) BlockHeight() int64                          { return c.Height }
func (c *Ctx) BlockTime() time.Time                        { return c.Time }
func (c *Ctx) ChainID() string                             { return c.Chain }
func (c *Ctx) IsCheckTx() bool                             { return c.Check }
func (c *Ctx) IsPrevCtx() bool                             { return c.Prev }
func (c *Ctx) Logger() log.Logger                          { return log.NewNopLogger() }
func (c *Ctx) EventManager() *sdk.EventManager             { return c.EM }
func (c *Ctx) ConsensusParams() *abci.ConsensusParams      { return c.Cons }
func (c *Ctx) AppVersion() string                          { return "0.0.0" }
func (c *Ctx) ClearGlobalCache()                           {}
func (c *Ctx) TxBytes() []byte                             { return nil }
func (c *Ctx) BlockHeader() abci.Header {
	return abci.Header{Height: c.Height, Time: c.Time, ChainID: c.Chain}
}
func (c *Ctx) IsAfterUpgradeHeight() bool { return c.Height >= codec.GetCodecUpgradeHeight() }
func (c *Ctx) IsOnUpgradeHeight() bool    { return c.Height == codec.GetCodecUpgradeHeight() }

// Clone deep-copies the stores (a snapshot to compare against after an operation).
func (c *Ctx) Clone() *Ctx {
	n := *c
	n.Stores = map[string]*modelkv.Store{}
	for k, s := range c.Stores {
		ns := modelkv.New()
		for _, kv := range s.Snapshot() {
			ns.SetRaw(kv.K, kv.V)
		}
		n.Stores[k] = ns
	}
	return &n
}
