// Package verifrt is the harness run-time API.  This file is the NATIVE implementation (used when
// a counterexample or a path witness is replayed against the real, natively compiled code): the
// nondeterministic inputs are read from a tape.  Inside the symbolic engine every exported
// function below is intercepted by name and never executes this body, except where noted
// ("interpreted").
package verifrt

import (
	"encoding/json"
	"fmt"
	"math/big"
	"os"
	"strings"
)

type TapeEntry struct {
	K string `json:"k"`
	V string `json:"v"`
	N int    `json:"n,omitempty"`
}

type Tape struct {
	Harness string      `json:"harness"`
	Label   string      `json:"label,omitempty"`
	Tier    int         `json:"tier"`
	Known   []string    `json:"known,omitempty"`
	Entries []TapeEntry `json:"tape"`
}

var (
	cur       *Tape
	pos       int
	exhausted bool
	out       = os.Stdout
)

type assumeFailed struct{ where string }

// LoadTape installs t as the source of nondeterminism.
func LoadTape(t *Tape) { cur, pos, exhausted = t, 0, false }

func next(kind string) *big.Int {
	if cur == nil || pos >= len(cur.Entries) {
		exhausted = true
		return new(big.Int)
	}
	// entries of kind "now" are wall-clock readings taken inside the engine; natively the real
	// clock is used and they are skipped
	for pos < len(cur.Entries) && cur.Entries[pos].K == "now" {
		pos++
	}
	if pos >= len(cur.Entries) {
		exhausted = true
		return new(big.Int)
	}
	e := cur.Entries[pos]
	pos++
	if e.K != kind {
		fmt.Fprintf(out, "VERIF-TAPE-MISMATCH want=%s got=%s at=%d\n", kind, e.K, pos-1)
		panic(assumeFailed{"tape kind mismatch"})
	}
	v, ok := new(big.Int).SetString(e.V, 10)
	if !ok {
		v = new(big.Int)
	}
	return v
}

func U8() uint8     { return uint8(next("u8").Uint64()) }
func U16() uint16   { return uint16(next("u16").Uint64()) }
func U32() uint32   { return uint32(next("u32").Uint64()) }
func U64() uint64   { return next("u64").Uint64() }
func I64() int64    { return next("i64").Int64() }
func I32() int32    { return int32(next("i32").Int64()) }
func Bool() bool    { return next("bool").Sign() != 0 }

// Int64In returns an arbitrary value in [lo,hi], carried as a mathematical integer in the engine.
func Int64In(lo, hi int64) int64 {
	v := next("int").Int64()
	Assume(lo <= v && v <= hi)
	return v
}

// IntIn is Int64In for int.
func IntIn(lo, hi int) int { return int(Int64In(int64(lo), int64(hi))) }

// BigIn returns an arbitrary big integer in [lo,hi] (decimal strings).
func BigIn(lo, hi string) *big.Int {
	v := next("big")
	l, _ := new(big.Int).SetString(lo, 10)
	h, _ := new(big.Int).SetString(hi, 10)
	Assume(l.Cmp(v) <= 0 && v.Cmp(h) <= 0)
	return v
}

// Bytes returns n arbitrary bytes (interpreted).
func Bytes(n int) []byte {
	b := make([]byte, n)
	for i := range b {
		b[i] = U8()
	}
	return b
}

// Choice returns an arbitrary value in [0,n): the engine explores every one.
func Choice(n int) int {
	v := int(next("choice").Int64())
	if v < 0 || v >= n {
		panic(assumeFailed{"choice out of range"})
	}
	return v
}

// Concretize returns x after forking on its value within [lo,hi] (engine); natively the identity.
func Concretize(x, lo, hi int64) int64 {
	Assume(lo <= x && x <= hi)
	return x
}

func Assume(c bool) {
	if !c {
		panic(assumeFailed{"assume"})
	}
}

var failed []string

func Assert(c bool, label string) {
	fmt.Fprintf(out, "VERIF-REACH %s\n", label)
	if !c {
		failed = append(failed, label)
		fmt.Fprintf(out, "VERIF-ASSERT-FAILED %s\n", label)
	}
}

func Reach(label string) { fmt.Fprintf(out, "VERIF-REACH %s\n", label) }

// Observe records a value for engine-vs-native comparison of non-violating paths.
func Observe(name string, x interface{}) {
	fmt.Fprintf(out, "VERIF-OBSERVE %s=%s\n", name, Render(x))
}

// Render gives the canonical rendering both sides use for Observe.
func Render(x interface{}) string {
	switch x := x.(type) {
	case []byte:
		if x == nil {
			return "nil"
		}
		return fmt.Sprintf("%x.", x)
	case string:
		return fmt.Sprintf("%x.", x)
	case *big.Int:
		if x == nil {
			return "nil"
		}
		return x.String()
	case bool:
		if x {
			return "true"
		}
		return "false"
	case error:
		if x == nil {
			return "nil"
		}
		return "error"
	case nil:
		return "nil"
	}
	return fmt.Sprintf("%d", x)
}

func And(a, b bool) bool     { return a && b }
func Or(a, b bool) bool      { return a || b }
func Implies(a, b bool) bool { return !a || b }
func Not(a bool) bool        { return !a }
func Iff(a, b bool) bool     { return a == b }

// Ite selects without branching in the engine (scalars and byte slices of equal length only).
func Ite[T any](c bool, x, y T) T {
	if c {
		return x
	}
	return y
}

// KnownRegion names the input region of a defect recorded in /verif/known_findings.json.
type KnownRegion struct {
	ID string
	In bool
}

func Known(id string, pred bool) KnownRegion { return KnownRegion{id, pred} }

// AssertK is Assert, except that counterexamples inside a *listed* known region are reported as
// KNOWN-FINDING instead of VIOLATION.
func AssertK(c bool, label string, regions ...KnownRegion) {
	fmt.Fprintf(out, "VERIF-REACH %s\n", label)
	if c {
		return
	}
	for _, r := range regions {
		if r.In && cur != nil {
			for _, k := range cur.Known {
				if k == r.ID {
					fmt.Fprintf(out, "VERIF-KNOWN %s %s\n", r.ID, label)
					return
				}
			}
		}
	}
	failed = append(failed, label)
	fmt.Fprintf(out, "VERIF-ASSERT-FAILED %s\n", label)
}

// Tier is 0 for quick and 1 for thorough.
func Tier() int {
	if cur != nil {
		return cur.Tier
	}
	return 0
}

// MapOrderNondet makes every subsequent map iteration order a symbolic permutation (engine);
// natively Go's own randomisation applies.
func MapOrderNondet() {}

// Outside documents a deliberate cut; the engine lists it in the evidence.
func Outside(what string) {}

// Stub documents a stub/contract the harness relies on; listed in the evidence.
func Stub(what string) {}

// ExpectPanic runs f and reports whether it panicked (interpreted in the engine as well).
func ExpectPanic(f func()) (panicked bool) {
	defer func() {
		if r := recover(); r != nil {
			if _, ok := r.(assumeFailed); ok {
				panic(r)
			}
			panicked = true
		}
	}()
	f()
	return false
}

// RunNative executes one harness against the tape in file path and prints the outcome protocol.
func RunNative(path string, harnesses map[string]func()) int {
	data, err := os.ReadFile(path)
	if err != nil {
		fmt.Fprintf(out, "VERIF-ERROR %v\n", err)
		return 2
	}
	var tapes []Tape
	if err := json.Unmarshal(data, &tapes); err != nil {
		var one Tape
		if err2 := json.Unmarshal(data, &one); err2 != nil {
			fmt.Fprintf(out, "VERIF-ERROR %v\n", err)
			return 2
		}
		tapes = []Tape{one}
	}
	rc := 0
	for k := range tapes {
		t := &tapes[k]
		h := harnesses[t.Harness]
		fmt.Fprintf(out, "VERIF-BEGIN %d %s\n", k, t.Harness)
		if h == nil {
			fmt.Fprintf(out, "VERIF-ERROR no harness %s\n", t.Harness)
			rc = 2
			continue
		}
		LoadTape(t)
		failed = nil
		func() {
			defer func() {
				if r := recover(); r != nil {
					if af, ok := r.(assumeFailed); ok {
						fmt.Fprintf(out, "VERIF-ASSUME-FAILED %s\n", af.where)
						return
					}
					msg := strings.ReplaceAll(fmt.Sprint(r), "\n", " ")
					fmt.Fprintf(out, "VERIF-PANIC %s\n", msg)
				}
			}()
			h()
		}()
		if exhausted {
			fmt.Fprintf(out, "VERIF-TAPE-EXHAUSTED\n")
		}
		fmt.Fprintf(out, "VERIF-END %d failed=%d\n", k, len(failed))
	}
	return rc
}

// ---- parameters and native fixtures ----

type ParamKV struct {
	Tag string
	Key string
	Val interface{}
}

var pendingParams []ParamKV

// Param provides the value of a module parameter. Engine: recorded in the parameter table that
// the (types.Subspace) accessors are intercepted to read. Native: queued; the package's native
// environment writes the queue through the real Subspace.Set.
func Param(key string, val interface{}) { pendingParams = append(pendingParams, ParamKV{Key: key, Val: val}) }

// PendingParams returns and clears the queued parameters (native environments only).
func PendingParams() []ParamKV {
	p := pendingParams
	pendingParams = nil
	return p
}

var testingT interface{}

// SetT / T hand the *testing.T of the replay test to native environments.
func SetT(t interface{}) { testingT = t }
func T() interface{}     { return testingT }

// Native reports whether the harness runs natively (false inside the engine).
func Native() bool { return true }

// ParamFor is Param for one tagged context only (the tag is the context's ChainID).
func ParamFor(tag, key string, val interface{}) {
	pendingParams = append(pendingParams, ParamKV{Key: key, Val: val, Tag: tag})
}

// RunRegion (engine only) runs the tail of function fn starting right after its call to a function
// whose name ends with calleeSuffix, with result standing for that call's result. Natively it does
// nothing and returns false: region harnesses are engine-only (model-level).
func RunRegion(fn, calleeSuffix string, result interface{}) bool { return false }

// SigVerdict (engine) is the ideal-signature verdict the intercepted VerifyBytes returns for the
// same (key bytes, message, signature). Natively there is no such oracle: harnesses using it are
// engine-only (model-level).
func SigVerdict(pk, msg, sig []byte) bool { return false }

// Replace (engine only) makes every call of the function whose full SSA name is fn — e.g.
// "(github.com/pokt-network/pocket-core/types.BigDec).FracPow" — run standIn instead, which must
// take the same parameters (receiver first) and return the same results. It is how a harness puts
// a contract in place of a callee the solver cannot execute. Natively it does nothing and returns
// false: harnesses that use it are engine-only (model-level).
func Replace(fn string, standIn interface{}) bool { return false }
