#!/bin/sh
# usage: ./check.sh Cxx quick|thorough      or   ./check.sh --replay <file>
cd "$(dirname "$0")"
export GOFLAGS=-mod=mod GOPROXY=off GOSUMDB=off GOTOOLCHAIN=local
if [ ! -x bin/gosym ] || [ -n "$(find engine -newer bin/gosym -name '*.go' 2>/dev/null | head -1)" ]; then
  ./setup.sh >/dev/null || exit 2
fi
if [ "$1" = "--replay" ]; then
  exec ./bin/gosym -replay "$2"
fi
TIER="${2:-${VERIF_TIER:-quick}}"
./bin/gosym -prop "$1" -tier "$TIER"
rc=$?
# exit codes: 0 held, 1 violation, 2 inconclusive (reported as failure of the check, never as a violation)
exit $rc
