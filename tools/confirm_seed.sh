#!/bin/bash
# usage: tools/confirm_seed.sh <seed-id> <worktree> <demo-pkg-dir> "<test pkgs>" <property> "<needs>"
# Confirms a seeded change: builds, existing tests pass with it, demo fails with it and passes without it.
ID="$1"; WT="$2"; DEMO="$3"; PKGS="$4"; PROP="$5"; NEEDS="$6"
export GOFLAGS=-mod=mod GOPROXY=off GOSUMDB=off GOTOOLCHAIN=local
cd "$WT" || exit 2
git checkout -q -- . ; git apply _out/patch.diff || { echo "patch does not apply"; exit 2; }
cp _out/zz_seed_demo_test.go "$DEMO"/ 2>/dev/null
R1=$(go build ./... 2>&1 | tail -1); echo "build: ${R1:-ok}"
T1=$(go test -vet=off -count=1 -skip 'SeedDemo' $PKGS 2>&1 | grep -c "^FAIL\|^--- FAIL"); echo "existing tests with change: failures=$T1"
D1=$(go test -vet=off -count=1 -run 'SeedDemo' ./$DEMO/ 2>&1 | grep -c "^--- FAIL\|^FAIL"); echo "demo with change: failures=$D1"
git apply -R _out/patch.diff
D0=$(go test -vet=off -count=1 -run 'SeedDemo' ./$DEMO/ 2>&1 | grep -c "^--- FAIL\|^FAIL"); echo "demo without change: failures=$D0"
if [ -z "$R1" ] && [ "$T1" = 0 ] && [ "$D1" != 0 ] && [ "$D0" = 0 ]; then
  mkdir -p /verif/seeded/$ID && cp _out/patch.diff _out/zz_seed_demo_test.go /verif/seeded/$ID/ && cp _out/notes.md /verif/seeded/$ID/notes.md
  python3 - "$ID" "$PROP" "$NEEDS" "$DEMO" "$PKGS" <<'PY'
import json,sys
i,prop,needs,demo,pkgs=sys.argv[1:6]
json.dump({"id":i,"property":prop,"breaks":prop,"needs_to_manifest":needs,"demo":"zz_seed_demo_test.go (place in "+demo+"/)","confirmed":{"go build ./...":"ok","existing tests with change ("+pkgs+", demo skipped)":"pass","demo with change":"FAIL","demo without change":"pass"},"source":"independent sub-agent given only the property text and a scratch worktree"},open('/verif/seeded/%s/meta.json'%i,'w'),indent=1)
PY
  echo "CONFIRMED -> /verif/seeded/$ID"
else echo "NOT CONFIRMED"; fi
