#!/usr/bin/env python3
"""Regenerates /verif/MANIFEST.json from tools/claims.json (claimed checks) and properties.jsonl."""
import json, os
root = os.path.dirname(os.path.dirname(os.path.abspath(__file__)))
props = [json.loads(l) for l in open(os.path.join(root, 'properties.jsonl'))]
claims = json.load(open(os.path.join(root, 'tools', 'claims.json')))
checks, na = [], []
for p in props:
    pid = p['id']
    c = claims['claimed'].get(pid)
    if c and os.path.isdir(os.path.join(root, 'harness', pid)):
        checks.append({
            'property_id': pid,
            'quick_cmd': f'./check.sh {pid} quick',
            'thorough_cmd': f'./check.sh {pid} thorough',
            'evidence_file': f'/verif/evidence/{pid}.json',
            'replay_cmd_template': './check.sh --replay {path}',
            'engine': 'gosym',
            'level_claimed': {'category': 'model_checking', 'text': c['text'], 'design_ref': c.get('design_ref', 'DESIGN.md §5 ' + pid)},
            'level_note': c['note'],
            'technique': c.get('technique', 'bounded symbolic execution of the real Go code (go/ssa) with z3 deciding every path condition and assertion; counterexamples replayed natively'),
        })
    else:
        reason = claims['not_applicable'].get(pid) or claims['pending'].get(pid) or 'no check built yet with the solver-based technique'
        na.append({'property_id': pid, 'reason': reason})
m = {
    'version': 1,
    'setup_cmd': './setup.sh',
    'hooks': {'guard': 'verif', 'enable': 'no hooks: harnesses are injected with build overlays (go/packages Overlay, go test -overlay); nothing is committed to /repo', 'baseline_off_cmd': claims['baseline_off_cmd'], 'source_commits': [], 'add_only': True},
    'engines': [{'name': 'gosym', 'path': '/verif/engine', 'serves_properties': [c['property_id'] for c in checks], 'kind_free_text': 'symbolic executor for go/ssa (fork of x/tools ssa/interp) + SMT (z3 5.1.0), decision-replay DFS, native replay of counterexamples and path witnesses'}],
    'checks': checks,
    'not_applicable': na,
    'notes': claims.get('notes', ''),
}
json.dump(m, open(os.path.join(root, 'MANIFEST.json'), 'w'), indent=1)
print(f'{len(checks)} checks, {len(na)} not applicable')
