#!/bin/sh
# usage: tools/seedtest.sh <patch.diff> <prop> [tier]  — applies a seeded change to /repo, runs the check, reverts.
P="$1"; PROP="$2"; TIER="${3:-quick}"
cd /repo && git apply "$P" || { echo "patch does not apply"; exit 3; }
cd /verif && ./bin/gosym -prop "$PROP" -tier "$TIER" 2>&1 | grep "VIOLATION\|^OK\|INCONCLUSIVE\|KNOWN" | cut -c1-260 | head -8
git -C /repo checkout -- . ; git -C /repo status --short | head -3
