package main

// Intrinsics for pocket-core/types helpers and encoding/binary on range-carried integers.

import (
	"go/types"
	"math/big"
)

// beBytes renders integer x (type t, n bytes) as its big-endian bytes. For an Int-carried value
// the bytes are the aligned block extract(int2bv(x)), which lexCmp compares by value (big-endian
// block lemma) instead of byte by byte.
func (i *interpreter) beBytes(t types.Type, x value, n int) []value {
	f := i.tf
	out := make([]value, n)
	if tm, ok := x.(*Term); ok {
		var p *Term
		if tm.sort.K == SInt {
			p = f.Int2Bv(tm, 8*n)
		} else {
			p = tm
		}
		for j := 0; j < n; j++ {
			out[j] = fixType(types.Typ[types.Uint8], f.Extract(p, 8*(n-1-j)+7, 8*(n-1-j)))
		}
		return out
	}
	c, _ := concreteBig(x)
	c = new(big.Int).And(c, mask(8*n))
	for j := 0; j < n; j++ {
		out[j] = uint8(new(big.Int).Rsh(c, uint(8*(n-1-j))).Uint64() & 0xff)
	}
	return out
}

// beValue reads n big-endian bytes back; recognises aligned blocks.
func (i *interpreter) beValue(t types.Type, bs []value, n int) value {
	f := i.tf
	if len(bs) < n {
		panic(targetPanic{iface{i.runtimeErrorString, "runtime error: index out of range (binary.BigEndian read)"}})
	}
	if blockEndingAt(bs[:n], n-1) == n {
		p := blockParent(bs[n-1])
		if x := intBlock(p); x != nil {
			return x
		}
		return fixType(t, p)
	}
	var acc *Term
	for j := 0; j < n; j++ {
		b := i.byteTerm(bs[j])
		if acc == nil {
			acc = b
		} else {
			acc = f.Concat(acc, b)
		}
	}
	return fixType(t, acc)
}

func init() {
	put := func(n int, t types.Type) intrinsic {
		return func(fr *frame, args []value) (value, bool) {
			tm, ok := args[2].(*Term)
			if !ok || tm.sort.K != SInt {
				return nil, false // concrete or bit-vector value: the SSA body is fine
			}
			dst := args[1].([]value)
			bs := fr.i.beBytes(t, tm, n)
			if len(dst) < n {
				panic(targetPanic{iface{fr.i.runtimeErrorString, "runtime error: index out of range (binary.BigEndian write)"}})
			}
			copy(dst, bs)
			return nil, true
		}
	}
	reg("(encoding/binary.bigEndian).PutUint64", put(8, types.Typ[types.Uint64]))
	reg("(encoding/binary.bigEndian).PutUint32", put(4, types.Typ[types.Uint32]))
	get := func(n int, t types.Type) intrinsic {
		return func(fr *frame, args []value) (value, bool) {
			bs := args[1].([]value)
			if len(bs) >= n && blockEndingAt(bs[:n], n-1) == n {
				return fr.i.beValue(t, bs, n), true
			}
			return nil, false
		}
	}
	reg("(encoding/binary.bigEndian).Uint64", get(8, types.Typ[types.Uint64]))
	reg("(encoding/binary.bigEndian).Uint32", get(4, types.Typ[types.Uint32]))

	// sdk.FormatTimeBytes / ParseTimeBytes: fixed-width big-endian Unix seconds instead of the
	// textual sortable format. Contract: order-preserving and injective on whole-second UTC
	// instants at or after the epoch (what the harnesses use).
	T := "github.com/pokt-network/pocket-core/types."
	regSimple(T+"FormatTimeBytes", func(fr *frame, args []value) value {
		i := fr.i
		i.stub("sdk.FormatTimeBytes/ParseTimeBytes: 8-byte big-endian Unix seconds (order-preserving, injective on whole seconds >= epoch)")
		timePkg := i.prog.ImportedPackage("time")
		tt := timePkg.Type("Time").Object().Type()
		unix := i.prog.LookupMethod(tt, timePkg.Pkg, "Unix")
		sec := call(i, fr, 0, unix, []value{args[0]})
		return i.beBytes(types.Typ[types.Int64], sec, 8)
	})
	regSimple(T+"ParseTimeBytes", func(fr *frame, args []value) value {
		i := fr.i
		bs := args[0].([]value)
		if len(bs) != 8 {
			return tuple{zero(i.prog.ImportedPackage("time").Type("Time").Object().Type()), i.newError("ParseTimeBytes: bad length")}
		}
		sec := i.beValue(types.Typ[types.Int64], bs, 8)
		timePkg := i.prog.ImportedPackage("time")
		unixFn := timePkg.Func("Unix")
		t := call(i, fr, 0, unixFn, []value{sec, int64(0)})
		utc := i.prog.LookupMethod(timePkg.Type("Time").Object().Type(), timePkg.Pkg, "UTC")
		return tuple{call(i, fr, 0, utc, []value{t}), iface{}}
	})
	// parameter key tables are reflection-built registries used only for type checks on Set
	regSimple(T+"NewKeyTable", func(fr *frame, args []value) value {
		return zero(fr.i.prog.ImportedPackage("github.com/pokt-network/pocket-core/types").Type("KeyTable").Object().Type())
	})
	regSimple("("+T+"KeyTable).RegisterParamSet", func(fr *frame, args []value) value { return args[0] })
	regSimple("("+T+"KeyTable).RegisterType", func(fr *frame, args []value) value { return args[0] })
	regSimple("("+T+"Subspace).WithKeyTable", func(fr *frame, args []value) value { return args[0] })
	regSimple(T+"TimeTrack", func(fr *frame, args []value) value { return nil })
}
