package main

import "math/big"

// blockVsConst: if one of a,b ends (at index k) with an aligned block and the other side holds
// concrete bytes over the same span, returns (eq, lt, blockLen) comparing the block's parent with
// the constant (lt is "a < b" over that span).
func (i *interpreter) blockVsConst(a, b []value, k int) (eq, lt *Term, n int) {
	f := i.tf
	constOf := func(s []value, k, n int) (*big.Int, bool) {
		if k-n+1 < 0 {
			return nil, false
		}
		c := new(big.Int)
		for j := k - n + 1; j <= k; j++ {
			u, ok := s[j].(uint8)
			if !ok {
				return nil, false
			}
			c.Lsh(c, 8)
			c.Or(c, big.NewInt(int64(u)))
		}
		return c, true
	}
	cmp := func(p *Term, c *big.Int, blockIsA bool) (*Term, *Term) {
		if x := intBlock(p); x != nil {
			cc := f.IntB(c)
			if blockIsA {
				return f.Eq(x, cc), f.ICmp(OILt, x, cc)
			}
			return f.Eq(x, cc), f.ICmp(OILt, cc, x)
		}
		cc := f.Const(p.sort, c)
		if blockIsA {
			return f.Eq(p, cc), f.BvCmp(OBvUlt, p, cc)
		}
		return f.Eq(p, cc), f.BvCmp(OBvUlt, cc, p)
	}
	if n := blockEndingAt(a, k); n > 1 {
		if c, ok := constOf(b, k, n); ok {
			e, l := cmp(blockParent(a[k]), c, true)
			return e, l, n
		}
	}
	if n := blockEndingAt(b, k); n > 1 {
		if c, ok := constOf(a, k, n); ok {
			e, l := cmp(blockParent(b[k]), c, false)
			return e, l, n
		}
	}
	return nil, nil, 0
}
