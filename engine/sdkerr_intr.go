package main

import "fmt"

func init() {
	// (*sdkError).Error formats itself through fmt's Formatter protocol ("%v" of the error inside
	// its own Error method); rendered directly from the struct fields instead.
	regSimple("(*github.com/pokt-network/pocket-core/types.sdkError).Error", func(fr *frame, args []value) value {
		p, ok := args[0].(*value)
		if !ok || p == nil {
			return "<nil sdkError>"
		}
		st, ok := (*p).(structure)
		if !ok || len(st) < 2 {
			return "<sdkError>"
		}
		return fmt.Sprintf("ERROR: Codespace: %v Code: %v", st[0], st[1])
	})
	regSimple("github.com/pokt-network/pocket-core/types.captureStacktrace", func(fr *frame, args []value) value {
		return []value(nil)
	})
}

func init() {
	// ABCILog renders the error as JSON through json.Encoder (reflection); log text is not the subject
	regSimple("(*github.com/pokt-network/pocket-core/types.sdkError).ABCILog", func(fr *frame, args []value) value {
		p, ok := args[0].(*value)
		if !ok || p == nil {
			return "{}"
		}
		st, ok := (*p).(structure)
		if !ok || len(st) < 2 {
			return "{}"
		}
		return fmt.Sprintf(`{"codespace":"%v","code":%v}`, st[0], st[1])
	})
}
