package main

import "math/big"

func init() {
	// the wall clock is an arbitrary instant (whole seconds between 2001 and 2033), fresh per call
	regSimple("time.Now", func(fr *frame, args []value) value {
		i := fr.i
		i.stub("time.Now returns an arbitrary instant (nondeterministic wall clock)")
		var sec value
		if v, ok := i.replayNext(); ok {
			sec = v.Int64()
		} else {
			s := i.newVar("int", sortInt)
			lo, hi := big.NewInt(1000000000), big.NewInt(2000000000)
			s.lo, s.hi = lo, hi
			f := i.tf
			i.addPC(f.And(f.mk(OILe, sortBool, f.IntB(lo), s), f.mk(OILe, sortBool, s, f.IntB(hi))))
			if i.path.model != nil {
				if _, have := i.path.model[s.name]; !have {
					i.path.model[s.name] = lo
				}
			}
			i.path.tape[len(i.path.tape)-1].Kind = "now"
			sec = s
		}
		unix := i.prog.ImportedPackage("time").Func("Unix")
		return call(i, fr, 0, unix, []value{sec, int64(0)})
	})
	regSimple("time.Since", func(fr *frame, args []value) value { return int64(0) })
}
