package main

import "go/types"

func init() {
	SS := "(github.com/pokt-network/pocket-core/types.Subspace)."
	keyOf := func(v value) string {
		bs := v.([]value)
		raw := make([]byte, len(bs))
		for k, b := range bs {
			c, ok := b.(uint8)
			if !ok {
				unsupported("symbolic parameter key")
			}
			raw[k] = c
		}
		return string(raw)
	}
	// Update stores raw (JSON) bytes: kept verbatim next to the typed table; GetRaw returns them, or
	// the canonical encoding of the typed value when the parameter was never Updated.
	regSimple(SS+"Update", func(fr *frame, args []value) value {
		i := fr.i
		i.stub("param store: Subspace.Update keeps the raw bytes (the JSON decoding into the typed value is not modelled)")
		i.params["raw|"+keyOf(args[2])] = paramVal{nil, append([]value(nil), args[3].([]value)...)}
		return iface{}
	})
	regSimple(SS+"GetRaw", func(fr *frame, args []value) value {
		i := fr.i
		k := keyOf(args[2])
		if r, ok := i.params["raw|"+k]; ok {
			return tuple{append([]value(nil), r.(paramVal).v.([]value)...), iface{}}
		}
		if p, ok := i.params[k]; ok {
			var out []value
			pv := p.(paramVal)
			i.canonEncode(pv.t, pv.v, &out, 0)
			return tuple{out, iface{}}
		}
		return tuple{[]value(nil), iface{}}
	})
	regSimple(SS+"SetCodec", func(fr *frame, args []value) value { return nil })
	_ = types.Typ
}
