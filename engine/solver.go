package main

// One long-lived SMT solver process per worker, spoken to in SMT-LIB2 over stdin/stdout.

import (
	"bufio"
	"fmt"
	"io"
	"math/big"
	"os"
	"os/exec"
	"strings"
	"time"
)

type SolverStats struct {
	Queries  int
	Sat      int
	Unsat    int
	Unknown  int
	Errors   int
	Time     time.Duration
	MaxQuery time.Duration
}

type Solver struct {
	kind     string // z3-new | z3 | cvc5
	cmd      *exec.Cmd
	in       io.WriteCloser
	out      *bufio.Reader
	defined  map[int]bool
	declared map[string]bool
	declList []*Term
	stats    SolverStats
	timeoutS int
	log      io.Writer // optional transcript
	dead     bool
}

func newSolver(kind string, timeoutS int) (*Solver, error) {
	s := &Solver{kind: kind, timeoutS: timeoutS}
	if err := s.start(); err != nil {
		return nil, err
	}
	return s, nil
}

func (s *Solver) start() error {
	var cmd *exec.Cmd
	switch s.kind {
	case "z3-new", "z3":
		cmd = exec.Command(s.kind, "-in", fmt.Sprintf("-t:%d", s.timeoutS*1000))
	case "cvc5":
		cmd = exec.Command("cvc5", "--incremental", "--lang=smt2", fmt.Sprintf("--tlimit-per=%d", s.timeoutS*1000), "--produce-models")
	default:
		return fmt.Errorf("unknown solver %q", s.kind)
	}
	in, err := cmd.StdinPipe()
	if err != nil {
		return err
	}
	out, err := cmd.StdoutPipe()
	if err != nil {
		return err
	}
	cmd.Stderr = nil
	if err := cmd.Start(); err != nil {
		return err
	}
	s.cmd, s.in, s.out = cmd, in, bufio.NewReaderSize(out, 1<<16)
	s.dead = false
	s.Reset()
	return nil
}

func (s *Solver) Close() {
	if s.cmd != nil {
		s.in.Close()
		s.cmd.Process.Kill()
		s.cmd.Wait()
	}
}

func (s *Solver) send(str string) {
	if s.log != nil {
		io.WriteString(s.log, str)
	}
	if _, err := io.WriteString(s.in, str); err != nil {
		s.dead = true
	}
}

// Reset forgets all assertions and declarations.
func (s *Solver) Reset() {
	if s.dead {
		s.Close()
		s.start()
		return
	}
	s.send("(reset)\n")
	if s.kind == "cvc5" {
		s.send("(set-logic ALL)\n")
	}
	s.defined = map[int]bool{}
	s.declared = map[string]bool{}
	s.declList = s.declList[:0]
}

func (s *Solver) refOp(t *Term) string {
	return t.ref()
}

// define emits declarations/definitions for every node under t not yet known to the solver.
func (s *Solver) define(t *Term, sb *strings.Builder) {
	if t.op == OConst || s.defined[t.id] {
		return
	}
	if t.op == OVar {
		if !s.declared[t.name] {
			s.declared[t.name] = true
			s.declList = append(s.declList, t)
			fmt.Fprintf(sb, "(declare-const %s %s)\n", t.name, t.sort)
		}
		s.defined[t.id] = true
		return
	}
	for _, a := range t.args {
		s.define(a, sb)
	}
	s.defined[t.id] = true
	body := t.body()
	if t.op == OBv2Int && s.kind == "cvc5" {
		body = strings.Replace(body, "(bv2int ", "(bv2nat ", 1)
	}
	fmt.Fprintf(sb, "(define-fun t%d () %s %s)\n", t.id, t.sort, body)
}

// Assert adds t permanently (until Reset).
func (s *Solver) Assert(t *Term) {
	var sb strings.Builder
	s.define(t, &sb)
	fmt.Fprintf(&sb, "(assert %s)\n", t.ref())
	s.send(sb.String())
}

// Check decides satisfiability of the asserted set plus extras. With wantModel, a model over all
// declared variables is returned for sat.
func (s *Solver) Check(wantModel bool, extras ...*Term) (string, Model) {
	var sb strings.Builder
	for _, e := range extras {
		s.define(e, &sb)
	}
	if len(extras) > 0 {
		sb.WriteString("(push 1)\n")
		for _, e := range extras {
			fmt.Fprintf(&sb, "(assert %s)\n", e.ref())
		}
	}
	sb.WriteString("(check-sat)\n")
	t0 := time.Now()
	s.send(sb.String())
	res, hadErr := s.readCheck()
	var m Model
	if res == "sat" && wantModel && !hadErr {
		m = s.getModel()
	}
	if len(extras) > 0 {
		s.send("(pop 1)\n")
	}
	d := time.Since(t0)
	if d > 2*time.Second && os.Getenv("GOSYM_SLOWQ") != "" {
		var parts []string
		for _, e := range extras {
			parts = append(parts, e.String())
		}
		fmt.Fprintf(os.Stderr, "SLOWQ %.1fs %s: %s\n", d.Seconds(), res, strings.Join(parts, " ; "))
	}
	s.stats.Queries++
	s.stats.Time += d
	if d > s.stats.MaxQuery {
		s.stats.MaxQuery = d
	}
	if hadErr {
		s.stats.Errors++
		res = "unknown"
	}
	switch res {
	case "sat":
		s.stats.Sat++
	case "unsat":
		s.stats.Unsat++
	default:
		s.stats.Unknown++
		res = "unknown"
	}
	return res, m
}

func (s *Solver) readCheck() (string, bool) {
	hadErr := false
	for {
		line, err := s.out.ReadString('\n')
		if err != nil {
			s.dead = true
			return "unknown", true
		}
		line = strings.TrimSpace(line)
		if s.log != nil {
			fmt.Fprintf(s.log, "; <- %s\n", line)
		}
		switch {
		case line == "sat" || line == "unsat" || line == "unknown" || line == "timeout":
			return line, hadErr
		case strings.HasPrefix(line, "(error"):
			hadErr = true
		case line == "":
		default:
			// unexpected output: treat as error but keep reading
			hadErr = true
		}
	}
}

func (s *Solver) getModel() Model {
	m := Model{}
	if len(s.declList) == 0 {
		return m
	}
	var sb strings.Builder
	sb.WriteString("(get-value (")
	for _, v := range s.declList {
		sb.WriteString(v.name)
		sb.WriteString(" ")
	}
	sb.WriteString("))\n")
	s.send(sb.String())
	// read balanced s-expression
	var buf strings.Builder
	depth, started := 0, false
	for {
		line, err := s.out.ReadString('\n')
		if err != nil {
			s.dead = true
			return nil
		}
		buf.WriteString(line)
		for _, ch := range line {
			if ch == '(' {
				depth++
				started = true
			} else if ch == ')' {
				depth--
			}
		}
		if started && depth <= 0 {
			break
		}
	}
	txt := buf.String()
	if strings.Contains(txt, "(error") {
		return nil
	}
	toks := tokenize(txt)
	pos := 0
	var parse func() interface{}
	parse = func() interface{} {
		if pos >= len(toks) {
			return nil
		}
		t := toks[pos]
		pos++
		if t == "(" {
			var l []interface{}
			for pos < len(toks) && toks[pos] != ")" {
				l = append(l, parse())
			}
			pos++
			return l
		}
		return t
	}
	top, _ := parse().([]interface{})
	for _, e := range top {
		pair, ok := e.([]interface{})
		if !ok || len(pair) != 2 {
			continue
		}
		name, _ := pair[0].(string)
		if v := sexprValue(pair[1]); v != nil {
			m[name] = v
		}
	}
	return m
}

func tokenize(s string) []string {
	var toks []string
	i := 0
	for i < len(s) {
		c := s[i]
		switch {
		case c == '(' || c == ')':
			toks = append(toks, string(c))
			i++
		case c == ' ' || c == '\n' || c == '\t' || c == '\r':
			i++
		default:
			j := i
			for j < len(s) && !strings.ContainsRune("() \n\t\r", rune(s[j])) {
				j++
			}
			toks = append(toks, s[i:j])
			i = j
		}
	}
	return toks
}

func sexprValue(e interface{}) *big.Int {
	switch e := e.(type) {
	case string:
		switch {
		case e == "true":
			return big.NewInt(1)
		case e == "false":
			return big.NewInt(0)
		case strings.HasPrefix(e, "#x"):
			v, ok := new(big.Int).SetString(e[2:], 16)
			if ok {
				return v
			}
		case strings.HasPrefix(e, "#b"):
			v, ok := new(big.Int).SetString(e[2:], 2)
			if ok {
				return v
			}
		default:
			v, ok := new(big.Int).SetString(e, 10)
			if ok {
				return v
			}
		}
	case []interface{}:
		if len(e) == 2 {
			if op, _ := e[0].(string); op == "-" {
				if v := sexprValue(e[1]); v != nil {
					return new(big.Int).Neg(v)
				}
			}
		}
		if len(e) == 3 {
			// (_ bvN W)
			if a, _ := e[0].(string); a == "_" {
				if b, _ := e[1].(string); strings.HasPrefix(b, "bv") {
					v, ok := new(big.Int).SetString(b[2:], 10)
					if ok {
						return v
					}
				}
			}
		}
	}
	return nil
}
