package main

import "go/types"

func init() {
	count := func(fr *frame, args []value) value {
		i := fr.i
		var bs []value
		switch s := args[0].(type) {
		case []value:
			bs = s
		default:
			bs = strBytes(s)
		}
		n := 0
		for _, b := range bs {
			switch r := i.eqv(types.Typ[types.Uint8], b, args[1]).(type) {
			case bool:
				if r {
					n++
				}
			case *Term:
				if i.branch(r) {
					n++
				}
			}
		}
		return n
	}
	regSimple("internal/bytealg.Count", count)
	regSimple("internal/bytealg.CountString", count)
}

func init() {
	regSimple("internal/bytealg.MakeNoZero", func(fr *frame, args []value) value {
		n := int(asInt64(args[0]))
		out := make([]value, n)
		for k := range out {
			out[k] = uint8(0)
		}
		return out
	})
}
