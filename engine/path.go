package main

// Per-path symbolic state: decisions, path condition, cached model, branch/assume/assert.

import (
	"os"
	"fmt"
	"golang.org/x/tools/go/ssa"
	"math/big"
	"strings"
)

// engine aborts (Go panics that target-level recover() must never swallow)
type abortKind int

const (
	abUnsupported abortKind = iota // construct the engine cannot execute → INCONCLUSIVE
	abInfeasible                   // Assume(false) / infeasible path: silently dropped
	abBudget                       // step/unwind/path budget exceeded → INCONCLUSIVE
	abFatal                        // os.Exit / log.Fatal reached
	abStop                         // harness asked to stop the path (after violation)
)

type engineAbort struct {
	kind abortKind
	msg  string
}

func (e engineAbort) String() string { return fmt.Sprintf("abort(%d): %s", e.kind, e.msg) }

func unsupported(format string, a ...interface{}) {
	panic(engineAbort{abUnsupported, fmt.Sprintf(format, a...)})
}

type tapeEntry struct {
	Kind string   `json:"k"`           // u8,u16,u32,u64,i64,bool,choice,int(ranged),big
	Var  *Term    `json:"-"`           // symbolic variable (nil for choice)
	Val  string   `json:"v"`           // decimal value (filled from a model)
	N    int      `json:"n,omitempty"` // choice arity
	val  *big.Int // concrete value when replaying
}

type violation struct {
	Harness   string
	Label     string
	Known     string // id of known region if the counterexample lies inside one
	Decisions []int
	Tape      []tapeEntry
	Model     map[string]string
	Detail    string
	Panic     bool
}

type obligation struct {
	Label   string
	Verdict string // unsat | sat | unknown | trivially-true | concrete-false
}

type workItem struct {
	prefix []int
	model  Model
}

type pathState struct {
	harness   string
	prefix    []int
	pos       int
	decisions []int
	dlabels   []string
	pc        []*Term
	model     Model
	memo      map[int]*big.Int
	tape      []tapeEntry
	nvars     int
	siblings  []workItem
	steps     int64
	blocks    int64
	oblig     []obligation
	viols     []violation
	reached   map[string]bool
	observes  []observed
	unknownBr int
	hashApps  map[string][]hashApp
	known     map[string]*Term // id → region predicate registered by verifrt.Known
	replayVal []*big.Int       // concrete replay: values for nondet calls (engine replay)
	replayPos int
	mapNondet bool
	clock     int
	stubs     map[string]bool
	outside   []string
	funcs     map[*ssa.Function]bool
}

type observed struct {
	Name string
	Val  value
}

type hashApp struct {
	in  []*Term // input bytes (BV8 terms)
	out []*Term // output bytes
	concrete bool
}

func (p *pathState) invalidateModel() { p.model = nil; p.memo = nil }

func (i *interpreter) evalModel(t *Term) *big.Int {
	p := i.path
	if p.memo == nil {
		p.memo = map[int]*big.Int{}
	}
	return Eval(t, p.model, p.memo)
}

func (i *interpreter) addPC(c *Term) {
	if c.isTrue() {
		return
	}
	i.path.pc = append(i.path.pc, c)
	i.solver.Assert(c)
	if os.Getenv("GOSYM_PARANOID") != "" {
		if res, _ := i.solver.Check(false); res == "unsat" {
			fmt.Fprintf(os.Stderr, "PARANOID: pc unsat after adding %s\n  decisions=%v pos=%d prefix=%v modelnil=%v\n", c, i.path.decisions, i.path.pos, i.path.prefix, i.path.model == nil)
			if i.path.model != nil {
				for _, q := range i.path.pc {
					fmt.Fprintf(os.Stderr, "   pc %s = %v\n", q, Eval(q, i.path.model, map[int]*big.Int{}))
				}
			}
			panic(engineAbort{abUnsupported, "paranoid"})
		}
	}
}

func (i *interpreter) recordDecision(d int, label string) {
	p := i.path
	p.decisions = append(p.decisions, d)
	if len(p.decisions) > i.cfg.MaxDecisions {
		panic(engineAbort{abBudget, fmt.Sprintf("more than %d decisions on one path", i.cfg.MaxDecisions)})
	}
}

func (i *interpreter) pushSibling(d int, m Model) {
	p := i.path
	pre := make([]int, len(p.decisions)+1)
	copy(pre, p.decisions)
	pre[len(p.decisions)] = d
	p.siblings = append(p.siblings, workItem{prefix: pre, model: m})
}

// branch decides a symbolic condition, forking the path if both sides are feasible.
func (i *interpreter) branch(c *Term) bool {
	if c.sort.K != SBool {
		panic("branch on non-bool term")
	}
	if c.isConst() {
		return c.isTrue()
	}
	p := i.path
	f := i.tf
	if p.pos < len(p.prefix) {
		d := p.prefix[p.pos]
		p.pos++
		p.decisions = append(p.decisions, d)
		if d == 1 {
			i.addPC(c)
		} else {
			i.addPC(f.Not(c))
		}
		return d == 1 // (a model handed over with the work item satisfies the whole prefix)
	}
	var first bool
	var firstKnown bool
	if p.model != nil {
		first = i.evalModel(c).Sign() != 0
		firstKnown = true
	} else {
		res, m := i.solver.Check(true, c)
		switch res {
		case "sat":
			first, firstKnown = true, true
			p.model, p.memo = m, nil
		case "unsat":
			// pc is feasible (invariant), so ¬c holds on every continuation
			i.recordDecision(0, "")
			i.addPC(f.Not(c))
			return false
		default:
			p.unknownBr++
			first, firstKnown = true, false
		}
	}
	other := f.Not(c)
	if !first {
		other = c
	}
	res, m := i.solver.Check(true, other)
	od := 0
	if !first {
		od = 1
	}
	switch res {
	case "sat":
		i.pushSibling(od, m)
	case "unsat":
	default:
		p.unknownBr++
		i.pushSibling(od, nil)
	}
	_ = firstKnown
	if first {
		i.recordDecision(1, "")
		i.addPC(c)
	} else {
		i.recordDecision(0, "")
		i.addPC(f.Not(c))
	}
	if !firstKnown {
		p.invalidateModel()
	}
	return first
}

// choice is a pure nondeterministic n-way decision (all options feasible).
func (i *interpreter) choice(n int) int {
	if n <= 0 {
		unsupported("Choice(%d)", n)
	}
	if n == 1 {
		return 0
	}
	p := i.path
	if p.pos < len(p.prefix) {
		d := p.prefix[p.pos]
		p.pos++
		p.decisions = append(p.decisions, d)
		return d
	}
	for d := n - 1; d >= 1; d-- {
		i.pushSibling(d, p.model)
	}
	i.recordDecision(0, "")
	return 0
}

// assume adds c to the path condition; drops the path if infeasible.
func (i *interpreter) assume(c *Term) {
	if c.isConst() {
		if c.isFalse() {
			panic(engineAbort{abInfeasible, "assume(false)"})
		}
		return
	}
	p := i.path
	if p.pos < len(p.prefix) {
		// still replaying a prefix known to be feasible: no query needed
		i.addPC(c)
		return
	}
	if p.model != nil && i.evalModel(c).Sign() != 0 {
		i.addPC(c)
		return
	}
	res, m := i.solver.Check(true, c)
	switch res {
	case "unsat":
		panic(engineAbort{abInfeasible, "assumption infeasible"})
	case "sat":
		p.model, p.memo = m, nil
	default:
		p.unknownBr++
		p.invalidateModel()
	}
	i.addPC(c)
}

// concretize forks on the value of an integer term within [lo,hi]; values outside are
// reported through the oob callback result (ok=false).
func (i *interpreter) concretize(t *Term, lo, hi int64) (int64, bool) {
	f := i.tf
	mkc := func(k int64) *Term {
		if t.sort.K == SInt {
			return f.Int(k)
		}
		return f.BVs(t.sort.W, k)
	}
	if t.isConst() {
		var v *big.Int
		if t.sort.K == SInt {
			v = t.c
		} else {
			v = sval(t.c, t.sort.W)
		}
		if v.IsInt64() && v.Int64() >= lo && v.Int64() <= hi {
			return v.Int64(), true
		}
		return 0, false
	}
	for k := lo; k <= hi; k++ {
		if i.branch(f.Eq(t, mkc(k))) {
			return k, true
		}
	}
	return 0, false
}

// newVar creates a fresh nondet variable and records it on the tape.
func (i *interpreter) newVar(kind string, s Sort) *Term {
	p := i.path
	p.nvars++
	name := fmt.Sprintf("n%d_%s", p.nvars, kind)
	v := i.tf.Var(name, s)
	p.tape = append(p.tape, tapeEntry{Kind: kind, Var: v})
	return v
}

// fresh creates an internal (non-tape) variable, e.g. a hash output.
func (i *interpreter) fresh(prefix string, s Sort) *Term {
	p := i.path
	p.nvars++
	return i.tf.Var(fmt.Sprintf("f%d_%s", p.nvars, prefix), s)
}

func (i *interpreter) fillTape(m Model) []tapeEntry {
	p := i.path
	memo := map[int]*big.Int{}
	out := make([]tapeEntry, len(p.tape))
	for k, e := range p.tape {
		out[k] = e
		if e.Var != nil {
			v := Eval(e.Var, m, memo)
			if e.Var.sort.K == SBV && (e.Kind == "i64" || e.Kind == "i32" || e.Kind == "int") {
				v = sval(v, e.Var.sort.W)
			}
			out[k].Val = v.String()
		}
	}
	return out
}

func modelStrings(m Model) map[string]string {
	out := map[string]string{}
	for k, v := range m {
		if strings.HasPrefix(k, "n") {
			out[k] = v.String()
		}
	}
	return out
}

// assert checks c on the current path: emits the VC pc ∧ ¬c.
func (i *interpreter) assert(c *Term, label string, regions []string) {
	p := i.path
	f := i.tf
	p.reached[label] = true
	if c.isTrue() {
		p.oblig = append(p.oblig, obligation{label, "trivially-true"})
		return
	}
	neg := f.Not(c)
	// honoured known regions
	var honoured []string
	for _, id := range regions {
		if i.cfg.Known[id] {
			honoured = append(honoured, id)
		}
	}
	var notRegions []*Term
	for _, id := range honoured {
		r := p.known[id]
		res, m := i.solver.Check(true, neg, r)
		if res == "sat" {
			p.viols = append(p.viols, violation{Harness: p.harness, Label: label, Known: id,
				Decisions: append([]int(nil), p.decisions...), Tape: i.fillTape(m), Model: modelStrings(m)})
		}
		notRegions = append(notRegions, f.Not(r))
	}
	q := append([]*Term{neg}, notRegions...)
	res, m := i.solver.Check(true, q...)
	switch res {
	case "unsat":
		p.oblig = append(p.oblig, obligation{label, "unsat"})
	case "sat":
		p.oblig = append(p.oblig, obligation{label, "sat"})
		p.viols = append(p.viols, violation{Harness: p.harness, Label: label,
			Decisions: append([]int(nil), p.decisions...), Tape: i.fillTape(m), Model: modelStrings(m)})
	default:
		p.oblig = append(p.oblig, obligation{label, "unknown"})
	}
	// continue under c (and outside nothing else): the rest of the path sees the property
	if res == "sat" || len(honoured) > 0 {
		// is c still satisfiable together with pc?
		r2, m2 := i.solver.Check(true, c)
		if r2 == "unsat" {
			panic(engineAbort{abStop, "assertion fails on every continuation"})
		}
		if r2 == "sat" {
			p.model, p.memo = m2, nil
		} else {
			p.invalidateModel()
		}
	}
	i.addPC(c)
	if p.model != nil && i.evalModel(c).Sign() == 0 {
		p.invalidateModel()
	}
}
