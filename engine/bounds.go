package main

import (
	"go/ast"
	"strings"
)

// harnessBounds reports, for the evidence, the bound statement of a harness: the engine limits in
// force for it (defaults overridden by its //verif:config directives) and the harness's own doc
// comment, which states the input space in words (sizes, ranges, what is outside).
func harnessBounds(l *loaded, name, tier string) map[string]interface{} {
	out := map[string]interface{}{
		"tier":            tier,
		"unwind_per_loop": 64,
		"max_symbolic_len": 16,
		"query_timeout_s": map[string]int{"quick": 30, "thorough": 60}[tier],
	}
	if hc := l.configs[name]; hc != nil {
		out["directives"] = hc
		if v := hc["unwind"]; v != "" {
			out["unwind_per_loop"] = atoiDef(v, 64)
		}
		if v := hc["maxsymlen"]; v != "" {
			out["max_symbolic_len"] = atoiDef(v, 16)
		}
		if v := hc["qtimeout"]; v != "" {
			out["query_timeout_s"] = atoiDef(v, 30)
		}
	}
	for _, h := range l.harnesses {
		if h.Name() != name {
			continue
		}
		if fd, ok := h.Syntax().(*ast.FuncDecl); ok && fd.Doc != nil {
			out["statement"] = strings.TrimSpace(fd.Doc.Text())
		}
	}
	return out
}
