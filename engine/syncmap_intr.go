package main

import "go/types"

// sync.Map modelled as an association list per map object (sequential execution; keys must be
// concrete comparable values — the users key it by hex strings of concrete hashes).
type syncMapEnt struct {
	k, v iface
}

func init() {
	tbl := func(fr *frame, m value) *[]syncMapEnt {
		p, ok := m.(*value)
		if !ok || p == nil {
			panic(targetPanic{iface{fr.i.runtimeErrorString, "runtime error: invalid memory address or nil pointer dereference (nil *sync.Map in " + stackOf(fr, 4) + ")"}})
		}
		all, _ := fr.i.hostData["syncmaps"].(map[*value]*[]syncMapEnt)
		if all == nil {
			all = map[*value]*[]syncMapEnt{}
			fr.i.hostData["syncmaps"] = all
		}
		if all[p] == nil {
			all[p] = &[]syncMapEnt{}
		}
		return all[p]
	}
	same := func(a, b iface) bool {
		if a.t == nil || b.t == nil {
			return a.t == nil && b.t == nil
		}
		if !types.Identical(a.t, b.t) {
			return false
		}
		switch x := a.v.(type) {
		case string:
			y, ok := b.v.(string)
			if !ok {
				unsupported("sync.Map: symbolic key")
			}
			return x == y
		case int, int64, uint64, bool, uint8, int32, uint32:
			return a.v == b.v
		}
		unsupported("sync.Map: key of type %s", a.t)
		return false
	}
	find := func(t *[]syncMapEnt, k iface) int {
		for n, e := range *t {
			if same(e.k, k) {
				return n
			}
		}
		return -1
	}
	regSimple("(*sync.Map).Load", func(fr *frame, args []value) value {
		t := tbl(fr, args[0])
		if n := find(t, args[1].(iface)); n >= 0 {
			return tuple{(*t)[n].v, true}
		}
		return tuple{iface{}, false}
	})
	regSimple("(*sync.Map).Store", func(fr *frame, args []value) value {
		t := tbl(fr, args[0])
		if n := find(t, args[1].(iface)); n >= 0 {
			(*t)[n].v = args[2].(iface)
		} else {
			*t = append(*t, syncMapEnt{args[1].(iface), args[2].(iface)})
		}
		return nil
	})
	regSimple("(*sync.Map).LoadOrStore", func(fr *frame, args []value) value {
		t := tbl(fr, args[0])
		if n := find(t, args[1].(iface)); n >= 0 {
			return tuple{(*t)[n].v, true}
		}
		*t = append(*t, syncMapEnt{args[1].(iface), args[2].(iface)})
		return tuple{args[2], false}
	})
	regSimple("(*sync.Map).Delete", func(fr *frame, args []value) value {
		t := tbl(fr, args[0])
		if n := find(t, args[1].(iface)); n >= 0 {
			*t = append(append([]syncMapEnt(nil), (*t)[:n]...), (*t)[n+1:]...)
		}
		return nil
	})
}
