package main

// gosym: bounded symbolic execution of pocket-core harnesses over go/ssa with an SMT solver.

import (
	"crypto/sha256"
	"encoding/json"
	"flag"
	"fmt"
	"go/ast"
	"go/token"
	"os"
	"path/filepath"
	"regexp"
	"runtime/pprof"
	"sort"
	"strconv"
	"strings"
	"time"

	"golang.org/x/tools/go/packages"
	"golang.org/x/tools/go/ssa"
	"golang.org/x/tools/go/ssa/ssautil"
)

type harnessFile struct {
	src  string // path under /verif/harness
	dir  string // package dir relative to repo
	dst  string // overlay path in repo
	data []byte
}

type directive struct {
	key, val string
}

var (
	flagProp    = flag.String("prop", "", "property id (harness directory name)")
	flagTier    = flag.String("tier", "quick", "quick|thorough")
	flagRepo    = flag.String("repo", "/repo", "repository root")
	flagVerif   = flag.String("verif", "/verif", "verification root")
	flagOnly    = flag.String("only", "", "regexp: run only harnesses whose name matches")
	flagVerbose = flag.Bool("v", false, "verbose")
	flagTrace   = flag.Bool("trace", false, "trace instructions")
	flagWorkers = flag.Int("workers", 16, "worker count")
	flagNoNat   = flag.Bool("no-native", false, "skip native replay/witness validation")
	flagReplay  = flag.String("replay", "", "replay a recorded violation file")
	flagSolver  = flag.String("solver", "z3-new", "deciding solver")
	flagEvid    = flag.String("evidence", "", "evidence output path (default <verif>/evidence/<prop>.json)")
	flagDumpSMT = flag.String("dump-smt", "", "write solver transcript of worker 0 to file")
)

func main() {
	flag.Parse()
	if p := os.Getenv("GOSYM_CPUPROFILE"); p != "" {
		f, _ := os.Create(p)
		pprof.StartCPUProfile(f)
		defer pprof.StopCPUProfile()
		rc := 0
		func() {
			rc = runProperty(*flagProp, *flagTier)
		}()
		pprof.StopCPUProfile()
		os.Exit(rc)
	}
	if *flagReplay != "" {
		os.Exit(replayFile(*flagReplay))
	}
	if *flagProp == "" {
		fmt.Fprintln(os.Stderr, "usage: gosym -prop Cxx [-tier quick|thorough]")
		os.Exit(2)
	}
	os.Exit(runProperty(*flagProp, *flagTier))
}

func tierNum(t string) int {
	if t == "thorough" {
		return 1
	}
	return 0
}

// loadHarnessFiles reads /verif/harness/<prop>/*.go and the verifrt package.
func loadHarnessFiles(prop string) ([]harnessFile, error) {
	var out []harnessFile
	dir := filepath.Join(*flagVerif, "harness", prop)
	ents, err := os.ReadDir(dir)
	if err != nil && !os.IsNotExist(err) {
		return nil, err
	} // (a property whose harnesses all live in harness/common has no directory of its own)
	dirRe := regexp.MustCompile(`(?m)^//verif:dir\s+(\S+)`)
	for _, e := range ents {
		if !strings.HasSuffix(e.Name(), ".go") {
			continue
		}
		p := filepath.Join(dir, e.Name())
		data, err := os.ReadFile(p)
		if err != nil {
			return nil, err
		}
		m := dirRe.FindSubmatch(data)
		if m == nil {
			return nil, fmt.Errorf("%s: missing //verif:dir directive", p)
		}
		d := string(m[1])
		out = append(out, harnessFile{src: p, dir: d, dst: filepath.Join(*flagRepo, d, e.Name()), data: data})
	}
	// shared harness support files: /verif/harness/common/<name>.go with //verif:dir and //verif:for Cxx,Cyy (or *)
	cdir := filepath.Join(*flagVerif, "harness", "common")
	if cents, err := os.ReadDir(cdir); err == nil {
		forRe := regexp.MustCompile(`(?m)^//verif:for\s+(\S+)`)
		for _, e := range cents {
			if !strings.HasSuffix(e.Name(), ".go") {
				continue
			}
			p := filepath.Join(cdir, e.Name())
			data, _ := os.ReadFile(p)
			fm := forRe.FindSubmatch(data)
			dm := dirRe.FindSubmatch(data)
			if fm == nil || dm == nil {
				continue
			}
			use := false
			for _, id := range strings.Split(string(fm[1]), ",") {
				if id == "*" || id == prop {
					use = true
				}
			}
			if use {
				out = append(out, harnessFile{src: p, dir: string(dm[1]), dst: filepath.Join(*flagRepo, string(dm[1]), e.Name()), data: data})
			}
		}
	}
	rtroot := filepath.Join(*flagVerif, "rt")
	err = filepath.Walk(rtroot, func(p string, info os.FileInfo, err error) error {
		if err != nil || info.IsDir() || !strings.HasSuffix(p, ".go") || strings.HasSuffix(p, "_test.go") {
			return err
		}
		rel, _ := filepath.Rel(rtroot, p)
		data, err := os.ReadFile(p)
		if err != nil {
			return err
		}
		out = append(out, harnessFile{src: p, dir: "verifrt", dst: filepath.Join(*flagRepo, rel), data: data})
		return nil
	})
	if err != nil {
		return nil, err
	}
	return out, nil
}

type loaded struct {
	prog      *ssa.Program
	pkgs      []*packages.Package
	harnesses []*ssa.Function
	labels    map[string][]string // harness → statically present assertion/reach labels
	fnLabels  map[string][]string // "<file>|<func name>" → labels inside that function declaration
	configs   map[string]map[string]string
	files     []harnessFile
	loadTime  time.Duration
}

func loadProgram(prop string) (*loaded, error) {
	t0 := time.Now()
	files, err := loadHarnessFiles(prop)
	if err != nil {
		return nil, err
	}
	overlay := map[string][]byte{}
	dirs := map[string]bool{}
	for _, f := range files {
		overlay[f.dst] = f.data
		dirs["./"+f.dir] = true
		// extra packages a harness needs loaded (e.g. for region execution): //verif:load ./app
		for _, m := range regexp.MustCompile(`(?m)^//verif:load\s+(\S+)`).FindAllSubmatch(f.data, -1) {
			dirs[string(m[1])] = true
		}
	}
	var patterns []string
	for d := range dirs {
		patterns = append(patterns, d)
	}
	sort.Strings(patterns)
	cfg := &packages.Config{
		Mode:    packages.LoadAllSyntax,
		Dir:     *flagRepo,
		Overlay: overlay,
		Env:     append(os.Environ(), "GOFLAGS=-mod=mod", "GOPROXY=off", "GOSUMDB=off", "GOTOOLCHAIN=local", "CGO_ENABLED=0"),
		Tests:   false,
	}
	pkgs, err := packages.Load(cfg, patterns...)
	if err != nil {
		return nil, err
	}
	nerr := 0
	packages.Visit(pkgs, nil, func(p *packages.Package) {
		for _, e := range p.Errors {
			if nerr < 20 {
				fmt.Fprintf(os.Stderr, "load error: %s: %v\n", p.PkgPath, e)
			}
			nerr++
		}
	})
	if nerr > 0 {
		return nil, fmt.Errorf("%d package load errors (harness no longer compiles against the tree?)", nerr)
	}
	prog, spkgs := ssautil.AllPackages(pkgs, ssa.InstantiateGenerics)
	prog.Build()
	l := &loaded{prog: prog, pkgs: pkgs, files: files, labels: map[string][]string{}, fnLabels: map[string][]string{}, configs: map[string]map[string]string{}}
	overlayFiles := map[string]bool{}
	for _, f := range files {
		if f.dir != "verifrt" {
			overlayFiles[f.dst] = true
		}
	}
	cfgRe := regexp.MustCompile(`(?m)^//verif:config\s+(\S+)\s+(.*)$`)
	for _, f := range files {
		for _, m := range cfgRe.FindAllSubmatch(f.data, -1) {
			h := string(m[1])
			if l.configs[h] == nil {
				l.configs[h] = map[string]string{}
			}
			for _, kv := range strings.Fields(string(m[2])) {
				if k, v, ok := strings.Cut(kv, "="); ok {
					l.configs[h][k] = v
				}
			}
		}
	}
	for k, sp := range spkgs {
		if sp == nil {
			continue
		}
		pp := pkgs[k]
		// static labels per file
		fileLabels := map[string][]string{}
		for _, af := range pp.Syntax {
			fn := prog.Fset.Position(af.Pos()).Filename
			if !overlayFiles[fn] {
				continue
			}
			for _, decl := range af.Decls {
				fd, ok := decl.(*ast.FuncDecl)
				if !ok || fd.Body == nil {
					continue
				}
				ast.Inspect(fd, func(n ast.Node) bool {
					ce, ok := n.(*ast.CallExpr)
					if !ok {
						return true
					}
					se, ok := ce.Fun.(*ast.SelectorExpr)
					if !ok {
						return true
					}
					idx := -1
					switch se.Sel.Name {
					case "Assert", "AssertK":
						idx = 1
					case "Reach":
						idx = 0
					}
					if idx < 0 || len(ce.Args) <= idx {
						return true
					}
					if id, ok := se.X.(*ast.Ident); !ok || (id.Name != "v" && id.Name != "verifrt") {
						return true
					}
					if bl, ok := ce.Args[idx].(*ast.BasicLit); ok && bl.Kind == token.STRING {
						s, _ := strconv.Unquote(bl.Value)
						l.fnLabels[fn+"|"+fd.Name.Name] = append(l.fnLabels[fn+"|"+fd.Name.Name], s)
					}
					return true
				})
			}
			ast.Inspect(af, func(n ast.Node) bool {
				ce, ok := n.(*ast.CallExpr)
				if !ok {
					return true
				}
				se, ok := ce.Fun.(*ast.SelectorExpr)
				if !ok {
					return true
				}
				idx := -1
				switch se.Sel.Name {
				case "Assert", "AssertK":
					idx = 1
				case "Reach":
					idx = 0
				}
				if idx < 0 || len(ce.Args) <= idx {
					return true
				}
				if id, ok := se.X.(*ast.Ident); !ok || (id.Name != "v" && id.Name != "verifrt") {
					return true
				}
				if bl, ok := ce.Args[idx].(*ast.BasicLit); ok && bl.Kind == token.STRING {
					s, _ := strconv.Unquote(bl.Value)
					fileLabels[fn] = append(fileLabels[fn], s)
				}
				return true
			})
		}
		for name, mem := range sp.Members {
			fn, ok := mem.(*ssa.Function)
			if !ok || !strings.HasPrefix(name, "Verif") {
				continue
			}
			file := prog.Fset.Position(fn.Pos()).Filename
			if !overlayFiles[file] {
				continue
			}
			if fn.Signature.Params().Len() != 0 {
				continue
			}
			l.harnesses = append(l.harnesses, fn)
		}
		_ = fileLabels
		for fn, ls := range fileLabels {
			l.labels[fn] = ls
		}
	}
	sort.Slice(l.harnesses, func(a, b int) bool { return l.harnesses[a].Name() < l.harnesses[b].Name() })
	l.loadTime = time.Since(t0)
	return l, nil
}

func srcHash(prog *ssa.Program, fn *ssa.Function) string {
	if fn.Syntax() == nil {
		return ""
	}
	start := prog.Fset.Position(fn.Syntax().Pos())
	end := prog.Fset.Position(fn.Syntax().End())
	data, err := os.ReadFile(start.Filename)
	if err != nil || end.Offset > len(data) || start.Offset > end.Offset {
		return ""
	}
	h := sha256.Sum256(data[start.Offset:end.Offset])
	return fmt.Sprintf("%x", h[:6])
}

func loadKnown() (map[string]bool, []knownEntry) {
	known := map[string]bool{}
	var entries []knownEntry
	data, err := os.ReadFile(filepath.Join(*flagVerif, "known_findings.json"))
	if err != nil {
		return known, nil
	}
	var doc struct {
		Findings []knownEntry `json:"findings"`
	}
	if json.Unmarshal(data, &doc) == nil {
		for _, e := range doc.Findings {
			if e.Status == "known" {
				known[e.ID] = true
			}
		}
		entries = doc.Findings
	}
	return known, entries
}

type knownEntry struct {
	ID        string `json:"id"`
	Property  string `json:"property"`
	Harness   string `json:"harness"`
	Label     string `json:"label"`
	WhatFails string `json:"what_fails"`
	Status    string `json:"status"`
	Commit    string `json:"commit,omitempty"`
}

func atoiDef(s string, d int) int {
	if s == "" {
		return d
	}
	n, err := strconv.Atoi(s)
	if err != nil {
		return d
	}
	return n
}
