package main

// Ideal signatures: VerifyBytes of ed25519 / secp256k1 keys is an uninterpreted predicate of
// (key bytes, message bytes, signature bytes): a fresh boolean per distinct triple on a path. The
// harness reads the same predicate through verifrt.SigVerdict to state what was verified.

func (i *interpreter) sigVerdict(pk, msg, sig []value) value {
	key := "sig:" + bytesKey(pk) + "|" + bytesKey(msg) + "|" + bytesKey(sig)
	if t, ok := i.hostData[key]; ok {
		return t.(value)
	}
	i.stub("ideal signatures: VerifyBytes is an arbitrary but fixed verdict per (key, message, signature) — elliptic-curve arithmetic is not executed")
	var r value
	if v, ok := i.replayNext(); ok {
		r = v.Sign() != 0
	} else {
		r = i.newVar("bool", sortBool)
	}
	i.hostData[key] = r
	return r
}

func arrBytes(v value) []value {
	switch x := v.(type) {
	case array:
		return []value(x)
	case []value:
		return x
	}
	return nil
}

func init() {
	for _, n := range []string{
		"(github.com/pokt-network/pocket-core/crypto.Ed25519PublicKey).VerifyBytes",
		"(github.com/pokt-network/pocket-core/crypto.Secp256k1PublicKey).VerifyBytes",
	} {
		regSimple(n, func(fr *frame, args []value) value {
			return fr.i.sigVerdict(arrBytes(args[0]), args[1].([]value), args[2].([]value))
		})
	}
	regSimple(rtPkg+".SigVerdict", func(fr *frame, args []value) value {
		return fr.i.sigVerdict(args[0].([]value), args[1].([]value), args[2].([]value))
	})
}
