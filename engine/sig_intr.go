package main

// Ideal signatures: VerifyBytes of ed25519 / secp256k1 keys is an uninterpreted predicate of
// (key bytes, message bytes, signature bytes): a fresh boolean per distinct triple on a path. The
// harness reads the same predicate through verifrt.SigVerdict to state what was verified.

type sigApp struct {
	pk, msg, sig []*Term
	r            *Term
}

func (i *interpreter) sigVerdict(pk, msg, sig []value) value {
	key := "sig:" + bytesKey(pk) + "|" + bytesKey(msg) + "|" + bytesKey(sig)
	if t, ok := i.hostData[key]; ok {
		return t.(value)
	}
	i.stub("ideal signatures: VerifyBytes is an arbitrary but fixed verdict per (key, message, signature) — elliptic-curve arithmetic is not executed")
	var r value
	if v, ok := i.replayNext(); ok {
		r = v.Sign() != 0
	} else {
		r = i.newVar("bool", sortBool)
	}
	i.hostData[key] = r
	// functional consistency (Ackermann): the same triple, however it was computed, has the same verdict
	f := i.tf
	terms := func(bs []value) []*Term {
		out := make([]*Term, len(bs))
		for k, b := range bs {
			out[k] = i.byteTerm(b)
		}
		return out
	}
	app := sigApp{pk: terms(pk), msg: terms(msg), sig: terms(sig), r: i.boolTerm(r)}
	apps, _ := i.hostData["sigApps"].([]sigApp)
	eqAll := func(a, b []*Term) *Term {
		acc := f.Bool(true)
		for k := range a {
			acc = f.And(acc, f.Eq(a[k], b[k]))
		}
		return acc
	}
	for _, prev := range apps {
		if len(prev.pk) != len(app.pk) || len(prev.msg) != len(app.msg) || len(prev.sig) != len(app.sig) {
			continue
		}
		same := f.And(eqAll(prev.pk, app.pk), f.And(eqAll(prev.msg, app.msg), eqAll(prev.sig, app.sig)))
		i.addPC(f.Or(f.Not(same), f.Eq(prev.r, app.r)))
		i.path.invalidateModel()
	}
	i.hostData["sigApps"] = append(apps, app)
	return r
}

func arrBytes(v value) []value {
	switch x := v.(type) {
	case array:
		return []value(x)
	case []value:
		return x
	}
	return nil
}

func init() {
	for _, n := range []string{
		"(github.com/pokt-network/pocket-core/crypto.Ed25519PublicKey).VerifyBytes",
		"(github.com/pokt-network/pocket-core/crypto.Secp256k1PublicKey).VerifyBytes",
	} {
		regSimple(n, func(fr *frame, args []value) value {
			return fr.i.sigVerdict(arrBytes(args[0]), args[1].([]value), args[2].([]value))
		})
	}
	regSimple(rtPkg+".SigVerdict", func(fr *frame, args []value) value {
		return fr.i.sigVerdict(args[0].([]value), args[1].([]value), args[2].([]value))
	})
}
