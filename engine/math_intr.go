package main

import "math"

// Floating point is executed concretely by the host (no property depends on symbolic floats).
func init() {
	f1 := func(name string, fn func(float64) float64) {
		regSimple("math."+name, func(fr *frame, args []value) value {
			x, ok := args[0].(float64)
			if !ok {
				unsupported("math.%s of a symbolic value", name)
			}
			return fn(x)
		})
	}
	f1("Ceil", math.Ceil)
	f1("Floor", math.Floor)
	f1("Trunc", math.Trunc)
	f1("Round", math.Round)
	f1("Log2", math.Log2)
	f1("Log10", math.Log10)
	f1("Log1p", math.Log1p)
	f1("Exp2", math.Exp2)
	f2 := func(name string, fn func(float64, float64) float64) {
		regSimple("math."+name, func(fr *frame, args []value) value {
			x, ok := args[0].(float64)
			y, ok2 := args[1].(float64)
			if !ok || !ok2 {
				unsupported("math.%s of a symbolic value", name)
			}
			return fn(x, y)
		})
	}
	f2("Pow", math.Pow)
	f2("Mod", math.Mod)
	f2("Max", math.Max)
	regSimple("math.IsInf", func(fr *frame, args []value) value {
		return math.IsInf(args[0].(float64), args[1].(int))
	})
}
