module verif/engine

go 1.23

require (
	golang.org/x/crypto v0.0.0-20210921155107-089bfa567519
	golang.org/x/tools v0.29.0
)

require (
	golang.org/x/mod v0.22.0 // indirect
	golang.org/x/sync v0.10.0 // indirect
	golang.org/x/sys v0.29.0 // indirect
)
