module verif/engine

go 1.23

require (
	github.com/spaolacci/murmur3 v1.1.0
	golang.org/x/crypto v0.0.0-20210921155107-089bfa567519
	golang.org/x/tools v0.29.0
)

require (
	github.com/spaolacci/murmur3 v1.1.0
	golang.org/x/mod v0.22.0 // indirect
	golang.org/x/sync v0.10.0 // indirect
	golang.org/x/sys v0.29.0 // indirect
)
