// Copyright 2013 The Go Authors. All rights reserved.
// Use of this source code is governed by a BSD-style
// license that can be found in the LICENSE file.

// This file derives from golang.org/x/tools/go/ssa/interp (v0.29.0): the frame / defer /
// panic / closure machinery is kept, the value domain is extended with symbolic terms, control
// of branching is handed to the path explorer, package initialisation is lazy and tolerant.
package main

import (
	"fmt"
	"go/token"
	"go/types"
	"os"
	"runtime"
	"slices"
	"strings"
	"sync"
	"time"

	"golang.org/x/tools/go/ssa"
)

type continuation int

const (
	kNext continuation = iota
	kReturn
	kJump
)

type Mode uint

const (
	DisableRecover Mode = 1 << iota
	EnableTracing
)

type methodSet map[string]*ssa.Function

// shared holds everything that is immutable across paths and workers.
type shared struct {
	prog               *ssa.Program
	mode               Mode
	reflectPackage     *ssa.Package
	errorMethods       methodSet
	rtypeMethods       methodSet
	runtimeErrorString types.Type
	sizes              types.Sizes
	fnInfos            sync.Map // *ssa.Function → *fnInfo
	cfg                *Config
	named              sync.Map // "pkg.Type" → types.Type
}

type fnInfo struct {
	regs    map[ssa.Value]int
	n       int
	srcHash string
}

// interpreter: one per path execution.
type interpreter struct {
	*shared
	globals  map[*ssa.Global]*value
	pkgState map[*ssa.Package]int // 0 none, 1 running, 2 done
	tf       *TF
	solver   *Solver
	path     *pathState
	depth    int
	params   map[string]value // parameter table (verifrt.Param)
	hostData map[string]interface{}
	// remaining conversions of target values to host values for one fmt call
	hostArgBudget int
}

type deferred struct {
	fn    value
	args  []value
	instr *ssa.Defer
	tail  *deferred
}

type frame struct {
	i                *interpreter
	caller           *frame
	fn               *ssa.Function
	block, prevBlock *ssa.BasicBlock
	env              []value
	info             *fnInfo
	locals           []value
	defers           *deferred
	result           value
	panicking        bool
	panic            interface{}
	phitemps         []value
	visits           []int32
	tolerant         bool // package initialiser: failing instructions poison their result
}

// poison marks a value whose initialiser could not be executed.
type poison struct{ why string }

func mustDeref(t types.Type) types.Type {
	if p, ok := t.Underlying().(*types.Pointer); ok {
		return p.Elem()
	}
	panic("mustDeref: not a pointer: " + t.String())
}

func (s *shared) info(fn *ssa.Function) *fnInfo {
	if v, ok := s.fnInfos.Load(fn); ok {
		return v.(*fnInfo)
	}
	inf := &fnInfo{regs: map[ssa.Value]int{}}
	add := func(v ssa.Value) {
		if _, ok := inf.regs[v]; !ok {
			inf.regs[v] = inf.n
			inf.n++
		}
	}
	for _, p := range fn.Params {
		add(p)
	}
	for _, fv := range fn.FreeVars {
		add(fv)
	}
	for _, l := range fn.Locals {
		add(l)
	}
	for _, b := range fn.Blocks {
		for _, ins := range b.Instrs {
			if v, ok := ins.(ssa.Value); ok {
				add(v)
			}
		}
	}
	v, _ := s.fnInfos.LoadOrStore(fn, inf)
	return v.(*fnInfo)
}

func (fr *frame) set(key ssa.Value, v value) {
	fr.env[fr.info.regs[key]] = v
}

func (fr *frame) get(key ssa.Value) value {
	switch key := key.(type) {
	case nil:
		return nil
	case *ssa.Function, *ssa.Builtin:
		return key
	case *ssa.Const:
		return constValue(key)
	case *ssa.Global:
		return fr.i.global(key)
	}
	if r, ok := fr.info.regs[key]; ok {
		v := fr.env[r]
		if p, bad := v.(poison); bad {
			unsupported("use of value whose initialiser could not be executed: %s", p.why)
		}
		return v
	}
	panic(fmt.Sprintf("get: no value for %T: %v", key, key.Name()))
}

// global returns the address of a package-level variable, running the package's initialiser
// lazily on first access.
func (i *interpreter) global(g *ssa.Global) *value {
	if r, ok := i.globals[g]; ok {
		return r
	}
	pkg := g.Pkg
	i.ensureInit(pkg)
	if r, ok := i.globals[g]; ok {
		return r
	}
	cell := zero(mustDeref(g.Type()))
	i.globals[g] = &cell
	return &cell
}

func (i *interpreter) ensureInit(pkg *ssa.Package) {
	if pkg == nil || i.pkgState[pkg] != 0 {
		return
	}
	i.pkgState[pkg] = 1
	if os.Getenv("GOSYM_INITTIME") != "" {
		t0 := time.Now()
		defer func() {
			if d := time.Since(t0); d > 5*time.Millisecond {
				fmt.Fprintf(os.Stderr, "init %s: %v\n", pkg.Pkg.Path(), d)
			}
		}()
	}
	// globals are allocated on first access (see global): some packages declare very large tables
	if skipInit[pkg.Pkg.Path()] {
		i.pkgState[pkg] = 2
		return
	}
	if init := pkg.Func("init"); init != nil && init.Blocks != nil {
		func() {
			defer func() {
				if r := recover(); r != nil {
					if ea, ok := r.(engineAbort); ok && ea.kind != abUnsupported {
						panic(r)
					}
					// tolerated: remaining initialisers of this package are lost
					if i.cfg.Verbose {
						fmt.Fprintf(os.Stderr, "init %s aborted: %v\n", pkg.Pkg.Path(), r)
					}
				}
			}()
			callSSAx(i, nil, token.NoPos, init, nil, nil, true)
		}()
	}
	i.pkgState[pkg] = 2
}

// packages whose initialisers are never run (nothing the harnesses need lives in their globals,
// or an intrinsic replaces the whole package)
var skipInit = map[string]bool{
	"runtime": true, "os": true, "syscall": true, "internal/poll": true, "net": true,
	"internal/godebug": true, "internal/cpu": true, "internal/syscall/unix": true,
	"os/signal": true, "net/http": true, "crypto/tls": true, "log": false,
	"testing": true, "flag": true, "expvar": true, "net/http/pprof": true,
	"runtime/pprof": true, "runtime/trace": true, "internal/testlog": true,
	"google.golang.org/grpc": true,
}

func (fr *frame) runDefer(d *deferred) {
	var ok bool
	defer func() {
		if !ok {
			r := recover()
			if ea, isAbort := r.(engineAbort); isAbort {
				panic(ea)
			}
			fr.panicking = true
			fr.panic = r
		}
	}()
	call(fr.i, fr, d.instr.Pos(), d.fn, d.args)
	ok = true
}

func (fr *frame) runDefers() {
	for d := fr.defers; d != nil; d = d.tail {
		fr.runDefer(d)
	}
	fr.defers = nil
	if fr.panicking {
		panic(fr.panic)
	}
}

func lookupMethod(i *interpreter, typ types.Type, meth *types.Func) *ssa.Function {
	switch typ {
	case rtypeType:
		return i.rtypeMethods[meth.Id()]
	case errorType:
		return i.errorMethods[meth.Id()]
	}
	return i.prog.LookupMethod(typ, meth.Pkg(), meth.Name())
}

// index bounds: returns a concrete index, forking on symbolic ones; out-of-range is a target panic.
func (i *interpreter) indexOf(idx value, n int, t types.Type) int {
	if tm, ok := idx.(*Term); ok {
		if n > i.cfg.MaxSymIndex {
			unsupported("symbolic index into sequence of length %d", n)
		}
		_, signed, _ := basicInfo(t)
		var k int64
		var okk bool
		if tm.sort.K == SBV && !signed {
			// unsigned: compare as unsigned
			f := i.tf
			for c := 0; c < n; c++ {
				if i.branch(f.Eq(tm, f.BV(tm.sort.W, uint64(c)))) {
					return c
				}
			}
			okk = false
		} else {
			k, okk = i.concretize(tm, 0, int64(n)-1)
		}
		if !okk {
			panic(targetPanic{iface{i.runtimeErrorString, fmt.Sprintf("runtime error: index out of range [symbolic] with length %d", n)}})
		}
		return int(k)
	}
	k := asInt64(idx)
	if u, ok := idx.(uint64); ok && u > 1<<62 {
		k = -1
	}
	if k < 0 || k >= int64(n) {
		panic(targetPanic{iface{i.runtimeErrorString, fmt.Sprintf("runtime error: index out of range [%d] with length %d", k, n)}})
	}
	return int(k)
}

func visitInstr(fr *frame, instr ssa.Instruction) continuation {
	i := fr.i
	switch instr := instr.(type) {
	case *ssa.DebugRef:

	case *ssa.UnOp:
		fr.set(instr, fixType(instr.Type(), i.unop(instr, fr.get(instr.X))))

	case *ssa.BinOp:
		fr.set(instr, fixType(instr.Type(), i.binop(instr.Op, instr.X.Type(), fr.get(instr.X), fr.get(instr.Y))))

	case *ssa.Call:
		fn, args := prepareCall(fr, &instr.Call)
		fr.set(instr, call(fr.i, fr, instr.Pos(), fn, args))

	case *ssa.ChangeInterface:
		fr.set(instr, fr.get(instr.X))

	case *ssa.ChangeType:
		fr.set(instr, fr.get(instr.X))

	case *ssa.Convert:
		fr.set(instr, fixType(instr.Type(), i.conv(instr.Type(), instr.X.Type(), fr.get(instr.X))))

	case *ssa.SliceToArrayPointer:
		fr.set(instr, sliceToArrayPointer(instr.Type(), instr.X.Type(), fr.get(instr.X)))

	case *ssa.MakeInterface:
		fr.set(instr, iface{t: instr.X.Type(), v: fr.get(instr.X)})

	case *ssa.Extract:
		fr.set(instr, fr.get(instr.Tuple).(tuple)[instr.Index])

	case *ssa.Slice:
		fr.set(instr, i.slice(fr.get(instr.X), fr.get(instr.Low), fr.get(instr.High), fr.get(instr.Max)))

	case *ssa.Return:
		switch len(instr.Results) {
		case 0:
		case 1:
			fr.result = fr.get(instr.Results[0])
		default:
			var res []value
			for _, r := range instr.Results {
				res = append(res, fr.get(r))
			}
			fr.result = tuple(res)
		}
		fr.block = nil
		return kReturn

	case *ssa.RunDefers:
		fr.runDefers()

	case *ssa.Panic:
		panic(targetPanic{fr.get(instr.X)})

	case *ssa.Send:
		unsupported("channel send")

	case *ssa.Store:
		store(mustDeref(instr.Addr.Type()), fr.get(instr.Addr).(*value), fr.get(instr.Val))

	case *ssa.If:
		succ := 1
		switch c := fr.get(instr.Cond).(type) {
		case bool:
			if c {
				succ = 0
			}
		case *Term:
			if i.branch(c) {
				succ = 0
			}
		default:
			panic(fmt.Sprintf("If on %T", c))
		}
		fr.prevBlock, fr.block = fr.block, fr.block.Succs[succ]
		return kJump

	case *ssa.Jump:
		fr.prevBlock, fr.block = fr.block, fr.block.Succs[0]
		return kJump

	case *ssa.Defer:
		fn, args := prepareCall(fr, &instr.Call)
		defers := &fr.defers
		if into := fr.get(instr.DeferStack); into != nil {
			defers = into.(**deferred)
		}
		*defers = &deferred{fn: fn, args: args, instr: instr, tail: *defers}

	case *ssa.Go:
		// goroutines are not modelled: the spawned function is skipped if it is known to be
		// off the consensus path (metrics, logging); anything else is unsupported
		if f, ok := instr.Call.Value.(*ssa.Function); ok && skipGo(f) {
			break
		}
		if f, ok := instr.Call.Value.(*ssa.MakeClosure); ok && skipGo(f.Fn.(*ssa.Function)) {
			break
		}
		unsupported("go statement in %s", fr.fn)

	case *ssa.MakeChan:
		fr.set(instr, make(chan value, asInt64(fr.get(instr.Size))))

	case *ssa.Alloc:
		var addr *value
		if instr.Heap {
			addr = new(value)
			fr.set(instr, addr)
		} else {
			addr = fr.env[fr.info.regs[instr]].(*value)
		}
		*addr = zero(mustDeref(instr.Type()))

	case *ssa.MakeSlice:
		c := i.concreteLen(fr.get(instr.Cap), "make cap")
		l := i.concreteLen(fr.get(instr.Len), "make len")
		if l < 0 || c < l {
			panic(targetPanic{iface{i.runtimeErrorString, "runtime error: makeslice: len out of range"}})
		}
		if c > 1<<24 {
			unsupported("make of %d elements", c)
		}
		slice := make([]value, c)
		tElt := instr.Type().Underlying().(*types.Slice).Elem()
		for k := range slice {
			slice[k] = zero(tElt)
		}
		fr.set(instr, slice[:l])

	case *ssa.MakeMap:
		fr.set(instr, newAmap(instr.Type().Underlying().(*types.Map).Key()))

	case *ssa.Range:
		fr.set(instr, i.rangeIter(fr.get(instr.X), instr.X.Type()))

	case *ssa.Next:
		fr.set(instr, fr.get(instr.Iter).(iter).next())

	case *ssa.FieldAddr:
		p := fr.get(instr.X).(*value)
		if p == nil {
			panic(targetPanic{iface{i.runtimeErrorString, "runtime error: invalid memory address or nil pointer dereference (field of nil pointer in " + stackOf(fr, 4) + ")"}})
		}
		st, ok := (*p).(structure)
		if !ok {
			func() {
				defer func() {
					if r := recover(); r != nil {
						if ea, ok := r.(engineAbort); ok && ea.kind == abUnsupported {
							ea.msg += " [in " + stackOf(fr, 5) + "]"
							panic(ea)
						}
						panic(r)
					}
				}()
				st = i.unpackSpecial(p, mustDeref(instr.X.Type()))
			}()
		}
		fr.set(instr, &st[instr.Field])

	case *ssa.Field:
		x := fr.get(instr.X)
		st, ok := x.(structure)
		if !ok {
			unsupported("field access on modelled value %T in %s", x, fr.fn)
		}
		fr.set(instr, st[instr.Field])

	case *ssa.IndexAddr:
		x := fr.get(instr.X)
		idx := fr.get(instr.Index)
		switch x := x.(type) {
		case []value:
			fr.set(instr, &x[i.indexOf(idx, len(x), instr.Index.Type())])
		case *value:
			if x == nil {
				panic(targetPanic{iface{i.runtimeErrorString, "runtime error: invalid memory address or nil pointer dereference (index of nil array pointer in " + stackOf(fr, 4) + ")"}})
			}
			a := (*x).(array)
			fr.set(instr, &a[i.indexOf(idx, len(a), instr.Index.Type())])
		default:
			panic(fmt.Sprintf("unexpected x type in IndexAddr: %T", x))
		}

	case *ssa.Index:
		x := fr.get(instr.X)
		idx := fr.get(instr.Index)
		switch x := x.(type) {
		case array:
			fr.set(instr, x[i.indexOf(idx, len(x), instr.Index.Type())])
		case string:
			fr.set(instr, x[i.indexOf(idx, len(x), instr.Index.Type())])
		case symstr:
			fr.set(instr, x[i.indexOf(idx, len(x), instr.Index.Type())])
		default:
			panic(fmt.Sprintf("unexpected x type in Index: %T", x))
		}

	case *ssa.Lookup:
		fr.set(instr, i.lookup(instr, fr.get(instr.X), fr.get(instr.Index)))

	case *ssa.MapUpdate:
		m := fr.get(instr.Map).(*amap)
		if m == nil {
			panic(targetPanic{iface{i.runtimeErrorString, "assignment to entry in nil map"}})
		}
		i.mapInsert(m, fr.get(instr.Key), fr.get(instr.Value))

	case *ssa.TypeAssert:
		fr.set(instr, typeAssert(fr.i, instr, fr.get(instr.X).(iface)))

	case *ssa.MakeClosure:
		var bindings []value
		for _, binding := range instr.Bindings {
			bindings = append(bindings, fr.get(binding))
		}
		fr.set(instr, &closure{instr.Fn.(*ssa.Function), bindings})

	case *ssa.Phi:
		panic("unreachable")

	case *ssa.Select:
		unsupported("select statement in %s", fr.fn)

	default:
		panic(fmt.Sprintf("unexpected instruction: %T", instr))
	}
	return kNext
}

func skipGo(f *ssa.Function) bool {
	return false
}

// concreteLen turns a (possibly symbolic) length into a concrete one by forking within the
// configured bound.
func (i *interpreter) concreteLen(v value, what string) int64 {
	if tm, ok := v.(*Term); ok {
		// a length that is symbolic but has one value on every continuation needs no fork
		if d, ok := i.determined(tm); ok {
			if tm.sort.K != SInt {
				d = sval(d, tm.sort.W)
			}
			if d.IsInt64() {
				return d.Int64()
			}
		}
		k, ok := i.concretize(tm, 0, int64(i.cfg.MaxSymLen))
		if !ok {
			panic(engineAbort{abBudget, fmt.Sprintf("symbolic %s outside [0,%d]", what, i.cfg.MaxSymLen)})
		}
		return k
	}
	return asInt64(v)
}

func prepareCall(fr *frame, call *ssa.CallCommon) (fn value, args []value) {
	v := fr.get(call.Value)
	if call.Method == nil {
		fn = v
	} else {
		recv := v.(iface)
		if recv.t == nil {
			panic(targetPanic{iface{fr.i.runtimeErrorString, "runtime error: invalid memory address or nil pointer dereference (method " + call.Method.Name() + " called on nil interface in " + stackOf(fr, 4) + ")"}})
		}
		if f := lookupMethod(fr.i, recv.t, call.Method); f == nil {
			panic(fmt.Sprintf("method set for dynamic type %v does not contain %s", recv.t, call.Method))
		} else {
			fn = f
		}
		args = append(args, recv.v)
	}
	for _, arg := range call.Args {
		args = append(args, fr.get(arg))
	}
	return
}

func call(i *interpreter, caller *frame, callpos token.Pos, fn value, args []value) value {
	switch fn := fn.(type) {
	case *ssa.Function:
		if fn == nil {
			panic(targetPanic{iface{i.runtimeErrorString, "runtime error: call of nil function"}})
		}
		return callSSA(i, caller, callpos, fn, args, nil)
	case *closure:
		return callSSA(i, caller, callpos, fn.Fn, args, fn.Env)
	case *ssa.Builtin:
		return callBuiltin(caller, callpos, fn, args)
	case *hostFn:
		return fn.f(caller, args)
	}
	panic(fmt.Sprintf("cannot call %T", fn))
}

// hostFn is a function value implemented by the engine (e.g. returned by an intrinsic).
type hostFn struct {
	name string
	f    func(fr *frame, args []value) value
}

func loc(fset *token.FileSet, pos token.Pos) string {
	if pos == token.NoPos {
		return ""
	}
	return " at " + fset.Position(pos).String()
}

func callSSA(i *interpreter, caller *frame, callpos token.Pos, fn *ssa.Function, args []value, env []value) value {
	return callSSAx(i, caller, callpos, fn, args, env, false)
}

func callSSAx(i *interpreter, caller *frame, callpos token.Pos, fn *ssa.Function, args []value, env []value, tolerant bool) value {
	if i.mode&EnableTracing != 0 {
		fmt.Fprintf(os.Stderr, "%*sEntering %s\n", i.depth, "", fn)
	}
	fr := &frame{i: i, caller: caller, fn: fn, tolerant: tolerant}
	if fn.Parent() == nil {
		name := fn.String()
		if o := fn.Origin(); o != nil {
			name = o.String()
		}
		if rep, ok := i.hostData["replace:"+name]; ok {
			// verifrt.Replace: the harness supplied a stand-in with the same parameter list
			return call(i, caller, callpos, rep, args)
		}
		if ext := intrinsics[name]; ext != nil && !i.cfg.RealFns[name] {
			if r, handled := ext(fr, args); handled {
				return r
			}
		}
		if ext := externals[name]; ext != nil {
			return ext(fr, args)
		}
		if tolerant && caller == nil {
			// running a package initialiser
		} else if fn.Name() == "init" && fn.Pkg != nil && fn.Synthetic != "" && caller != nil && caller.fn.Name() == "init" && caller.fn.Pkg != fn.Pkg {
			// dependency initialisers are run lazily on first access to the package
			return nil
		}
		if fn.Blocks == nil {
			unsupported("no code for function: %s [called from %s]", name, stackOf(caller, 9))
		}
	}
	if fn.TypeParams().Len() > 0 && len(fn.TypeArgs()) == 0 {
		unsupported("uninstantiated generic function %s", fn)
	}
	if fn.Pkg != nil && i.pkgState[fn.Pkg] == 0 && !tolerant {
		i.ensureInit(fn.Pkg)
	}
	i.depth++
	if i.depth > i.cfg.MaxDepth {
		panic(engineAbort{abBudget, fmt.Sprintf("call depth > %d in %s", i.cfg.MaxDepth, fn)})
	}
	defer func() { i.depth-- }()
	if i.path != nil && i.path.funcs != nil && fn.Pkg != nil {
		i.path.funcs[fn] = true
	}

	fr.info = i.info(fn)
	fr.env = make([]value, fr.info.n)
	fr.block = fn.Blocks[0]
	fr.locals = make([]value, len(fn.Locals))
	fr.visits = make([]int32, len(fn.Blocks))
	for k, l := range fn.Locals {
		fr.locals[k] = zero(mustDeref(l.Type()))
		fr.env[fr.info.regs[l]] = &fr.locals[k]
	}
	for k, p := range fn.Params {
		fr.env[fr.info.regs[p]] = args[k]
	}
	for k, fv := range fn.FreeVars {
		fr.env[fr.info.regs[fv]] = env[k]
	}
	for fr.block != nil {
		runFrame(fr)
	}
	return fr.result
}

func runFrame(fr *frame) {
	defer func() {
		if fr.block == nil {
			return // normal return
		}
		r := recover()
		if ea, ok := r.(engineAbort); ok {
			if ea.kind == abUnsupported && !strings.Contains(ea.msg, " [in ") && !strings.Contains(ea.msg, " [called ") {
				ea.msg += " [in " + stackOf(fr, 5) + "]"
			}
			panic(ea) // never visible to the target program
		}
		if fr.i.mode&DisableRecover != 0 {
			panic(r)
		}
		if re, ok := r.(runtime.Error); ok && isEngineBug(re) {
			panic(engineAbort{abUnsupported, "engine: " + re.Error() + " in " + fr.fn.String()})
		}
		fr.panicking = true
		fr.panic = r
		fr.runDefers()
		fr.block = fr.fn.Recover
	}()

	i := fr.i
	for {
		fr.visits[fr.block.Index]++
		if int(fr.visits[fr.block.Index]) > i.cfg.Unwind {
			panic(engineAbort{abBudget, fmt.Sprintf("unwinding bound %d exceeded in %s block %d", i.cfg.Unwind, fr.fn, fr.block.Index)})
		}
		if i.cfg.CutFn != "" && int(fr.visits[fr.block.Index]) > i.cfg.CutN && strings.HasSuffix(fr.fn.String(), i.cfg.CutFn) {
			// deliberate cut declared by the harness: paths iterating this function's loop more than
			// CutN times are outside the claim
			if i.path != nil {
				i.path.outside = append(i.path.outside, fmt.Sprintf("paths with more than %d iterations of a loop in %s (cut)", i.cfg.CutN, i.cfg.CutFn))
			}
			panic(engineAbort{abInfeasible, "cut"})
		}
		if i.path != nil {
			i.path.blocks++
		}
		nonPhis := executePhis(fr)
		for _, instr := range nonPhis {
			if i.path != nil {
				i.path.steps++
				if i.path.steps > i.cfg.MaxSteps {
					panic(engineAbort{abBudget, fmt.Sprintf("step budget %d exceeded", i.cfg.MaxSteps)})
				}
			}
			if i.mode&EnableTracing != 0 {
				if v, ok := instr.(ssa.Value); ok {
					fmt.Fprintf(os.Stderr, "%*s\t%s = %s\n", i.depth, "", v.Name(), instr)
				} else {
					fmt.Fprintf(os.Stderr, "%*s\t%s\n", i.depth, "", instr)
				}
			}
			var k continuation
			if fr.tolerant {
				k = visitTolerant(fr, instr)
			} else {
				k = visitInstr(fr, instr)
			}
			if k == kReturn {
				return
			}
		}
	}
}

// isEngineBug distinguishes Go runtime errors that model target behaviour (nil dereference of a
// target pointer shows up as a nil *value dereference in the engine) from type-assertion failures
// inside the engine, which indicate an unsupported value shape.
func isEngineBug(re runtime.Error) bool {
	msg := re.Error()
	return strings.Contains(msg, "interface conversion") || strings.Contains(msg, "main.poison")
}

// visitTolerant executes one instruction of a package initialiser; failures poison the result.
func visitTolerant(fr *frame, instr ssa.Instruction) (k continuation) {
	defer func() {
		if r := recover(); r != nil {
			if ea, ok := r.(engineAbort); ok && ea.kind != abUnsupported && ea.kind != abBudget {
				panic(r)
			}
			why := fmt.Sprint(r)
			if tp, ok := r.(targetPanic); ok {
				why = "panic: " + toString(tp.v)
			}
			if v, ok := instr.(ssa.Value); ok {
				fr.set(v, poison{fmt.Sprintf("%s in %s: %s", instr, fr.fn.Pkg.Pkg.Path(), why)})
			}
			if fr.i.cfg.Verbose {
				fmt.Fprintf(os.Stderr, "init(%s): %s: %s\n", fr.fn.Pkg.Pkg.Path(), instr, why)
			}
			switch instr.(type) {
			case *ssa.If, *ssa.Jump, *ssa.Return:
				panic(r)
			}
			k = kNext
		}
	}()
	// stores of poisoned values mark the global as poisoned
	if st, ok := instr.(*ssa.Store); ok {
		if r, ok := fr.info.regs[st.Val]; ok {
			if p, bad := fr.env[r].(poison); bad {
				if addr, ok := fr.get(st.Addr).(*value); ok && addr != nil {
					*addr = p
				}
				return kNext
			}
		}
	}
	return visitInstr(fr, instr)
}

func executePhis(fr *frame) []ssa.Instruction {
	firstNonPhi := -1
	for i, instr := range fr.block.Instrs {
		if _, ok := instr.(*ssa.Phi); !ok {
			firstNonPhi = i
			break
		}
	}
	nonPhis := fr.block.Instrs[firstNonPhi:]
	if firstNonPhi > 0 {
		phis := fr.block.Instrs[:firstNonPhi]
		predIndex := slices.Index(fr.block.Preds, fr.prevBlock)
		fr.phitemps = fr.phitemps[:0]
		for _, phi := range phis {
			phi := phi.(*ssa.Phi)
			fr.phitemps = append(fr.phitemps, fr.get(phi.Edges[predIndex]))
		}
		for i, phi := range phis {
			fr.set(phi.(*ssa.Phi), fr.phitemps[i])
		}
	}
	return nonPhis
}

func doRecover(caller *frame) value {
	if caller.i.mode&DisableRecover == 0 &&
		caller != nil && !caller.panicking &&
		caller.caller != nil && caller.caller.panicking {
		caller.caller.panicking = false
		p := caller.caller.panic
		caller.caller.panic = nil
		switch p := p.(type) {
		case targetPanic:
			return p.v
		case runtime.Error:
			return iface{caller.i.runtimeErrorString, p.Error()}
		case string:
			return iface{caller.i.runtimeErrorString, p}
		default:
			panic(fmt.Sprintf("unexpected panic type %T in target call to recover()", p))
		}
	}
	return iface{}
}

func newShared(prog *ssa.Program, cfg *Config) *shared {
	s := &shared{prog: prog, cfg: cfg, sizes: &types.StdSizes{WordSize: 8, MaxAlign: 8}}
	runtimePkg := prog.ImportedPackage("runtime")
	if runtimePkg == nil {
		panic("ssa.Program doesn't include runtime package")
	}
	s.runtimeErrorString = runtimePkg.Type("errorString").Object().Type()
	initReflect(s)
	return s
}

func (s *shared) newInterp(tf *TF, solver *Solver) *interpreter {
	return &interpreter{
		shared:   s,
		globals:  make(map[*ssa.Global]*value),
		pkgState: make(map[*ssa.Package]int),
		tf:       tf,
		solver:   solver,
		params:   map[string]value{},
		hostData: map[string]interface{}{},
	}
}
