package main

// Opaque codec: the pocket-core codec (amino / proto / JSON behind codec.Codec) is replaced by a
// deterministic injective encoding (canonEncode) plus a per-path table from encoded bytes to a
// deep snapshot of the encoded object. Unmarshal restores the snapshot; bytes that were never
// produced by Marshal fail to decode. Contract assumed: the real codecs round-trip and are
// injective (that is property C38, checked separately).

import (
	"fmt"
	"go/types"
	"strings"
)

type codecEntry struct {
	t types.Type // dynamic type of the marshalled object (as passed)
	v value
}

func (i *interpreter) codecTable() map[string]codecEntry {
	t, ok := i.hostData["codec"].(map[string]codecEntry)
	if !ok {
		t = map[string]codecEntry{}
		i.hostData["codec"] = t
	}
	return t
}

func bytesKey(bs []value) string {
	var sb strings.Builder
	for _, b := range bs {
		switch b := b.(type) {
		case uint8:
			fmt.Fprintf(&sb, "%02x", b)
		case *Term:
			fmt.Fprintf(&sb, "[t%d]", b.id)
		default:
			fmt.Fprintf(&sb, "[?%T]", b)
		}
	}
	return sb.String()
}

// deepCopy copies a value graph (cells, structs, arrays, slices, maps), preserving sharing.
func deepCopy(v value, memo map[interface{}]value) value {
	switch x := v.(type) {
	case *value:
		if x == nil {
			return x
		}
		if c, ok := memo[x]; ok {
			return c
		}
		nc := new(value)
		memo[x] = nc
		*nc = deepCopy(*x, memo)
		return nc
	case structure:
		out := make(structure, len(x))
		for k := range x {
			out[k] = deepCopy(x[k], memo)
		}
		return out
	case array:
		out := make(array, len(x))
		for k := range x {
			out[k] = deepCopy(x[k], memo)
		}
		return out
	case []value:
		if x == nil {
			return x
		}
		out := make([]value, len(x), cap(x))
		for k := range x {
			out[k] = deepCopy(x[k], memo)
		}
		return out
	case tuple:
		out := make(tuple, len(x))
		for k := range x {
			out[k] = deepCopy(x[k], memo)
		}
		return out
	case iface:
		return iface{t: x.t, v: deepCopy(x.v, memo)}
	case *amap:
		if x == nil {
			return x
		}
		if c, ok := memo[x]; ok {
			return c
		}
		n := newAmap(x.kt)
		memo[x] = n
		for s := range x.keys {
			if x.live[s] {
				n.keys = append(n.keys, deepCopy(x.keys[s], memo))
				n.vals = append(n.vals, deepCopy(x.vals[s], memo))
				n.live = append(n.live, true)
				n.n++
				if indexable(x.keys[s]) {
					n.cidx[x.keys[s]] = len(n.keys) - 1
				} else {
					n.hasSym++
				}
			}
		}
		return n
	}
	return v // scalars, strings, terms, bigv (immutable), functions
}

func (i *interpreter) codecMarshal(marker byte, o value) value {
	x, ok := o.(iface)
	if !ok || x.t == nil {
		return tuple{[]value(nil), i.newError("opaque codec: marshal of nil")}
	}
	i.stub("opaque codec: codec.Codec / amino / proto Marshal*/Unmarshal* replaced by an injective deterministic encoding with snapshot restore (the real codecs' round trip is property C38)")
	out := []value{marker}
	// pointer and value of the same struct encode alike (amino/proto dereference)
	t, v := x.t, x.v
	if pt, isPtr := t.Underlying().(*types.Pointer); isPtr {
		p := v.(*value)
		if p == nil {
			return tuple{[]value(nil), i.newError("opaque codec: marshal of nil pointer")}
		}
		t, v = pt.Elem(), *p
	}
	name := t.String()
	out = append(out, byte(len(name)>>8), byte(len(name)))
	for k := 0; k < len(name); k++ {
		out = append(out, name[k])
	}
	i.canonEncode(t, v, &out, 0)
	i.codecTable()[bytesKey(out)] = codecEntry{t: x.t, v: deepCopy(x.v, map[interface{}]value{})}
	return tuple{out, iface{}}
}

func (i *interpreter) codecUnmarshal(marker byte, bz value, ptr value) value {
	bs, _ := bz.([]value)
	e, ok := i.codecTable()[bytesKey(bs)]
	if !ok || len(bs) == 0 || bs[0] != value(marker) {
		return i.newError("opaque codec: bytes were not produced by the matching Marshal")
	}
	dst, ok := ptr.(iface)
	if !ok || dst.t == nil {
		return i.newError("opaque codec: unmarshal into nil")
	}
	pt, isPtr := dst.t.Underlying().(*types.Pointer)
	if !isPtr {
		return i.newError("opaque codec: unmarshal into non-pointer")
	}
	cell := dst.v.(*value)
	if cell == nil {
		return i.newError("opaque codec: unmarshal into nil pointer")
	}
	src := deepCopy(e.v, map[interface{}]value{})
	elem := pt.Elem()
	// target is an interface variable: restore the dynamic value as it was passed to Marshal
	if _, isIface := elem.Underlying().(*types.Interface); isIface {
		if !types.AssignableTo(e.t, elem) {
			return i.newError("opaque codec: stored " + e.t.String() + " does not implement " + elem.String())
		}
		*cell = iface{t: e.t, v: src}
		return iface{}
	}
	// target is *T: stored object was T or *T
	st, sv := e.t, src
	if spt, ok := st.Underlying().(*types.Pointer); ok {
		st, sv = spt.Elem(), *(src.(*value))
	}
	// target is **T (pointer variable): allocate
	if ept, ok := elem.Underlying().(*types.Pointer); ok && types.Identical(ept.Elem(), st) {
		nc := new(value)
		*nc = sv
		*cell = nc
		return iface{}
	}
	if !types.Identical(elem, st) {
		return i.newError("opaque codec: stored " + st.String() + ", decoding into " + elem.String())
	}
	store(elem, cell, sv)
	return iface{}
}

func init() {
	C := "(*github.com/pokt-network/pocket-core/codec.Codec)."
	A := "(*github.com/pokt-network/pocket-core/codec.LegacyAmino)."
	P := "(*github.com/pokt-network/pocket-core/codec.ProtoCodec)."
	type mk struct {
		recv, name string
		marker     byte
		unm, must  bool
		oIdx, pIdx int
	}
	for _, m := range []mk{
		{C, "MarshalBinaryBare", 'B', false, false, 1, 0},
		{C, "MarshalBinaryLengthPrefixed", 'L', false, false, 1, 0},
		{C, "UnmarshalBinaryBare", 'B', true, false, 1, 2},
		{C, "UnmarshalBinaryLengthPrefixed", 'L', true, false, 1, 2},
		{C, "ProtoMarshalBinaryBare", 'B', false, false, 1, 0},
		{C, "LegacyMarshalBinaryBare", 'B', false, false, 1, 0},
		{C, "ProtoUnmarshalBinaryBare", 'B', true, false, 1, 2},
		{C, "LegacyUnmarshalBinaryBare", 'B', true, false, 1, 2},
		{C, "ProtoMarshalBinaryLengthPrefixed", 'L', false, false, 1, 0},
		{C, "LegacyMarshalBinaryLengthPrefixed", 'L', false, false, 1, 0},
		{C, "ProtoUnmarshalBinaryLengthPrefixed", 'L', true, false, 1, 2},
		{C, "LegacyUnmarshalBinaryLengthPrefixed", 'L', true, false, 1, 2},
		{C, "MarshalJSON", 'j', false, false, 1, 0},
		{C, "UnmarshalJSON", 'j', true, false, 1, 2},
		{C, "MustMarshalJSON", 'j', false, true, 1, 0},
		{C, "MustUnmarshalJSON", 'j', true, true, 1, 2},
		{A, "MarshalBinaryBare", 'B', false, false, 1, 0},
		{A, "UnmarshalBinaryBare", 'B', true, false, 1, 2},
		{A, "MarshalBinaryLengthPrefixed", 'L', false, false, 1, 0},
		{A, "UnmarshalBinaryLengthPrefixed", 'L', true, false, 1, 2},
		{A, "MarshalJSON", 'j', false, false, 1, 0},
		{A, "UnmarshalJSON", 'j', true, false, 1, 2},
		{A, "MustMarshalJSON", 'j', false, true, 1, 0},
		{A, "MustUnmarshalJSON", 'j', true, true, 1, 2},
		{P, "MarshalBinaryBare", 'B', false, false, 1, 0},
		{P, "UnmarshalBinaryBare", 'B', true, false, 1, 2},
		{P, "MarshalBinaryLengthPrefixed", 'L', false, false, 1, 0},
		{P, "UnmarshalBinaryLengthPrefixed", 'L', true, false, 1, 2},
		{P, "MarshalJSON", 'j', false, false, 1, 0},
		{P, "UnmarshalJSON", 'j', true, false, 1, 2},
	} {
		m := m
		regSimple(m.recv+m.name, func(fr *frame, args []value) value {
			i := fr.i
			if m.unm {
				err := i.codecUnmarshal(m.marker, args[m.oIdx], args[m.pIdx])
				if m.must {
					if e := err.(iface); e.t != nil {
						panic(targetPanic{err})
					}
					return nil
				}
				return err
			}
			r := i.codecMarshal(m.marker, args[m.oIdx]).(tuple)
			if m.must {
				if e := r[1].(iface); e.t != nil {
					panic(targetPanic{r[1]})
				}
				return r[0]
			}
			return r
		})
	}
	// registration is meaningless for the opaque codec
	noop := func(fr *frame, args []value) value { return nil }
	for _, n := range []string{"RegisterStructure", "RegisterInterface", "RegisterImplementation"} {
		regSimple(C+n, noop)
	}
	regSimple("github.com/pokt-network/pocket-core/codec.NewCodec", func(fr *frame, args []value) value {
		pkg := fr.i.prog.ImportedPackage("github.com/pokt-network/pocket-core/codec")
		t := pkg.Type("Codec").Object().Type()
		cell := new(value)
		z := zero(t).(structure)
		st := t.Underlying().(*types.Struct)
		for k := 0; k < st.NumFields(); k++ {
			if st.Field(k).Name() == "upgradeOverride" {
				z[k] = -1 // as the real constructor does: no override
			}
		}
		*cell = z
		return cell
	})
	regSimple("github.com/pokt-network/pocket-core/crypto.RegisterAmino", noop)
	regSimple("github.com/pokt-network/pocket-core/types.MustSortJSON", func(fr *frame, args []value) value { return args[0] })
	regSimple("github.com/pokt-network/pocket-core/types.SortJSON", func(fr *frame, args []value) value { return tuple{args[0], iface{}} })
}
