package main

// Solver-aided interval refinement: intervals attached to Int terms are normally derived
// syntactically; where that is too weak to avoid wrap-around or signed-division case splits, the
// path condition is asked once (under a deterministic resource limit) and the interval tightened.

import (
	"fmt"
	"math/big"
)

const rangeRlimit = 3000000

// CheckR is Check under a z3 resource limit (deterministic across runs, unlike wall time).
func (s *Solver) CheckR(rlimit int, extras ...*Term) string {
	if s.kind != "z3-new" && s.kind != "z3" {
		r, _ := s.Check(false, extras...)
		return r
	}
	s.send(fmt.Sprintf("(set-option :rlimit %d)\n", rlimit))
	r, _ := s.Check(false, extras...)
	s.send("(set-option :rlimit 0)\n")
	return r
}

// provenIn reports whether t lies in [lo,hi] on every continuation of the current path; a nil
// bound is unbounded. On success the term's interval is tightened.
func (i *interpreter) provenIn(t *Term, lo, hi *big.Int) bool {
	if t.isConst() {
		return (lo == nil || t.c.Cmp(lo) >= 0) && (hi == nil || t.c.Cmp(hi) <= 0)
	}
	tlo, thi := irange(t)
	okLo := lo == nil || (tlo != nil && tlo.Cmp(lo) >= 0)
	okHi := hi == nil || (thi != nil && thi.Cmp(hi) <= 0)
	if okLo && okHi {
		return true
	}
	if i.path == nil || i.solver == nil {
		return false
	}
	key := fmt.Sprintf("rq:%d:%v:%v", t.id, lo, hi)
	if r, ok := i.hostData[key]; ok {
		return r.(bool)
	}
	f := i.tf
	var viol []*Term
	if !okLo {
		viol = append(viol, f.mk(OILt, sortBool, t, f.IntB(lo)))
	}
	if !okHi {
		viol = append(viol, f.mk(OILt, sortBool, f.IntB(hi), t))
	}
	res := i.solver.CheckR(rangeRlimit, f.Or(viol...))
	ok := res == "unsat"
	i.hostData[key] = ok
	if ok {
		nlo, nhi := tlo, thi
		if lo != nil && (nlo == nil || lo.Cmp(nlo) > 0) {
			nlo = lo
		}
		if hi != nil && (nhi == nil || hi.Cmp(nhi) < 0) {
			nhi = hi
		}
		if nlo != nil && nhi != nil {
			t.lo, t.hi = nlo, nhi
		} else if nlo != nil && t.hi == nil {
			// one-sided knowledge: keep as a generous two-sided interval so interval arithmetic can use it
			t.lo, t.hi = nlo, new(big.Int).Lsh(big.NewInt(1), 400)
		} else if nhi != nil && t.lo == nil {
			t.lo, t.hi = new(big.Int).Neg(new(big.Int).Lsh(big.NewInt(1), 400)), nhi
		}
	}
	return ok
}

func (i *interpreter) provenNonneg(t *Term) bool   { return i.provenIn(t, big.NewInt(0), nil) }
func (i *interpreter) provenPositive(t *Term) bool { return i.provenIn(t, big.NewInt(1), nil) }

// determined reports whether t has one and the same value on every continuation of the current
// path (asked once under the deterministic resource limit); used by intrinsics whose symbolic
// result would otherwise turn later slice offsets and lengths symbolic.
func (i *interpreter) determined(t *Term) (*big.Int, bool) {
	if t.isConst() {
		return t.c, true
	}
	if i.path == nil || i.solver == nil {
		return nil, false
	}
	key := fmt.Sprintf("det:%d:%d", t.id, len(i.path.pc))
	if r, ok := i.hostData[key]; ok {
		if r == nil {
			return nil, false
		}
		return r.(*big.Int), true
	}
	p := i.path
	if p.model == nil {
		res, m := i.solver.Check(true)
		if res != "sat" {
			i.hostData[key] = nil
			return nil, false
		}
		p.model, p.memo = m, nil
	}
	k := i.evalModel(t)
	f := i.tf
	var kc *Term
	if t.sort.K == SInt {
		kc = f.IntB(k)
	} else {
		kc = f.Const(t.sort, k)
	}
	if i.solver.CheckR(rangeRlimit, f.Not(f.Eq(t, kc))) == "unsat" {
		i.hostData[key] = k
		return k, true
	}
	i.hostData[key] = nil
	return nil, false
}
