package main

func init() {
	regSimple("github.com/tendermint/tendermint/crypto/tmhash.Sum", func(fr *frame, args []value) value {
		return fr.i.idealHash("sha256", args[0].([]value), 32)
	})
	regSimple("github.com/tendermint/tendermint/crypto/tmhash.SumTruncated", func(fr *frame, args []value) value {
		return fr.i.idealHash("sha256", args[0].([]value), 32)[:20]
	})
	regSimple("crypto/sha256.Sum256", func(fr *frame, args []value) value {
		return array(fr.i.idealHash("sha256", args[0].([]value), 32))
	})
}
