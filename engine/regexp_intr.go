package main

import "regexp"

// hostObj wraps a host-side object referenced from target memory (e.g. a compiled regexp).
type hostObj struct{ v interface{} }

func init() {
	// regular expressions are compiled and matched by the host on concrete strings
	compile := func(fr *frame, args []value) value {
		pat := mustString(args[0], "regexp pattern")
		re, err := regexp.Compile(pat)
		if err != nil {
			panic(targetPanic{"regexp: Compile(" + pat + "): " + err.Error()})
		}
		cell := new(value)
		*cell = hostObj{re}
		return cell
	}
	regSimple("regexp.MustCompile", compile)
	regSimple("regexp.Compile", func(fr *frame, args []value) value { return tuple{compile(fr, args), iface{}} })
	re := func(v value) *regexp.Regexp {
		p, ok := v.(*value)
		if !ok || p == nil {
			unsupported("regexp method on nil")
		}
		h, ok := (*p).(hostObj)
		if !ok {
			unsupported("regexp object not created by the host")
		}
		return h.v.(*regexp.Regexp)
	}
	regSimple("(*regexp.Regexp).MatchString", func(fr *frame, args []value) value {
		s, ok := args[1].(string)
		if !ok {
			unsupported("regexp match on a symbolic string")
		}
		return re(args[0]).MatchString(s)
	})
	regSimple("(*regexp.Regexp).FindStringSubmatch", func(fr *frame, args []value) value {
		s, ok := args[1].(string)
		if !ok {
			unsupported("regexp match on a symbolic string")
		}
		m := re(args[0]).FindStringSubmatch(s)
		if m == nil {
			return []value(nil)
		}
		out := make([]value, len(m))
		for k := range m {
			out[k] = m[k]
		}
		return out
	})
	regSimple("(*regexp.Regexp).String", func(fr *frame, args []value) value { return re(args[0]).String() })
}
