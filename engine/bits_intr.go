package main

import (
	"go/types"
	"math/bits"
)

func init() {
	// math/bits table lookups would need a 256-way fork on a symbolic index; modelled exactly as
	// an ite chain over the powers of two.
	lenN := func(w int) func(fr *frame, args []value) value {
		return func(fr *frame, args []value) value {
			i := fr.i
			tm, ok := args[0].(*Term)
			if !ok {
				c, _ := concreteBig(args[0])
				return bits.Len64(c.Uint64())
			}
			f := i.tf
			x := tm
			if x.sort.K == SInt {
				x = f.Int2Bv(x, w)
			}
			r := f.BV(64, uint64(w))
			for k := w - 1; k >= 0; k-- {
				r = f.Ite(f.BvCmp(OBvUlt, x, f.BV(w, 1<<uint(k))), f.BV(64, uint64(k)), r)
			}
			if k, ok := i.determined(r); ok {
				return int(k.Int64())
			}
			return fixType(types.Typ[types.Int], r)
		}
	}
	regSimple("math/bits.Len64", lenN(64))
	regSimple("math/bits.Len32", lenN(32))
	regSimple("math/bits.Len16", lenN(16))
	regSimple("math/bits.Len8", lenN(8))
	regSimple("math/bits.Len", lenN(64))
	regSimple("math/bits.LeadingZeros64", func(fr *frame, args []value) value {
		r := lenN(64)(fr, args)
		if c, ok := r.(int); ok {
			return 64 - c
		}
		return fr.i.tf.BvBin(OBvSub, fr.i.tf.BV(64, 64), r.(*Term))
	})
}
