package main

import "github.com/spaolacci/murmur3"

func init() {
	// bloom filter base hashes (murmur3 through unsafe pointer casts): host-computed on concrete
	// data; symbolic data is outside what the engine models.
	regSimple("github.com/willf/bloom.baseHashes", func(fr *frame, args []value) value {
		bs, _ := args[0].([]value)
		raw := make([]byte, len(bs))
		for k, b := range bs {
			c, ok := b.(uint8)
			if !ok {
				unsupported("bloom filter over symbolic data")
			}
			raw[k] = c
		}
		h := murmur3.New128()
		h.Write(raw)
		v1, v2 := h.Sum128()
		h.Write([]byte{1})
		v3, v4 := h.Sum128()
		return array{v1, v2, v3, v4}
	})
}
