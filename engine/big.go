package main

// math/big.Int modelled as mathematical integers (concrete *big.Int or SMT Int term).

import (
	"fmt"
	"go/types"
	"math/big"
)

type bigv struct {
	c *big.Int
	t *Term
}

var bitLenThresholds = []int{0, 63, 64, 255, 256, 257, 315, 316}

// bigPeek reads the big.Int a *big.Int value points to.
func (i *interpreter) bigPeek(p value) (*bigv, bool) {
	ptr, ok := p.(*value)
	if !ok || ptr == nil {
		return nil, false
	}
	switch x := (*ptr).(type) {
	case *bigv:
		return x, true
	case structure:
		if len(x) != 2 {
			return nil, false
		}
		neg, ok1 := x[0].(bool)
		abs, ok2 := x[1].([]value)
		if !ok1 || !ok2 {
			return nil, false
		}
		r := new(big.Int)
		for k := len(abs) - 1; k >= 0; k-- {
			w, ok := abs[k].(uint)
			if !ok {
				return nil, false
			}
			r.Lsh(r, 64)
			r.Or(r, new(big.Int).SetUint64(uint64(w)))
		}
		if neg {
			r.Neg(r)
		}
		return &bigv{c: r}, true
	}
	return nil, false
}

func (i *interpreter) bigGet(p value, what string) *bigv {
	ptr, ok := p.(*value)
	if ok && ptr == nil {
		panic(targetPanic{iface{i.runtimeErrorString, "runtime error: invalid memory address or nil pointer dereference (nil *big.Int in " + what + ")"}})
	}
	b, ok := i.bigPeek(p)
	if !ok {
		unsupported("%s: unrecognised big.Int representation", what)
	}
	return b
}

func (i *interpreter) bigTerm(b *bigv) *Term {
	if b.t != nil {
		return b.t
	}
	return i.tf.IntB(b.c)
}

func (i *interpreter) bigSet(p value, t *Term) value {
	ptr := p.(*value)
	if ptr == nil {
		panic(targetPanic{iface{i.runtimeErrorString, "runtime error: invalid memory address or nil pointer dereference (nil *big.Int receiver)"}})
	}
	if t.isConst() {
		*ptr = &bigv{c: new(big.Int).Set(t.c)}
	} else {
		*ptr = &bigv{t: t}
	}
	return ptr
}

func (i *interpreter) bigSetC(p value, c *big.Int) value {
	ptr := p.(*value)
	if ptr == nil {
		panic(targetPanic{iface{i.runtimeErrorString, "runtime error: invalid memory address or nil pointer dereference (nil *big.Int receiver)"}})
	}
	*ptr = &bigv{c: c}
	return ptr
}

// unpackSpecial converts a modelled value back to the struct layout interpreted code expects
// (only possible for concrete values).
func (i *interpreter) unpackSpecial(p *value, t types.Type) structure {
	switch x := (*p).(type) {
	case *bigv:
		if x.c == nil {
			unsupported("field access into symbolic big.Int")
		}
		abs := new(big.Int).Abs(x.c)
		var words []value
		for _, w := range abs.Bits() {
			words = append(words, uint(w))
		}
		st := structure{x.c.Sign() < 0, words}
		*p = st
		return st
	case poison:
		unsupported("use of value whose initialiser could not be executed: %s", x.why)
	}
	panic(fmt.Sprintf("FieldAddr on %T", *p))
}

func init() {
	B := "(*math/big.Int)."
	bin := func(name string, cf func(z, x, y *big.Int) *big.Int, sf func(i *interpreter, x, y *Term) *Term, divLike bool) {
		regSimple(B+name, func(fr *frame, args []value) value {
			i := fr.i
			x, y := i.bigGet(args[1], name), i.bigGet(args[2], name)
			if divLike {
				if y.c != nil && y.c.Sign() == 0 {
					panic(targetPanic{"division by zero"})
				}
				if y.t != nil {
					if i.branch(i.tf.Eq(y.t, i.tf.Int(0))) {
						panic(targetPanic{"division by zero"})
					}
				}
			}
			if x.c != nil && y.c != nil {
				return i.bigSetC(args[0], cf(new(big.Int), x.c, y.c))
			}
			return i.bigSet(args[0], sf(i, i.bigTerm(x), i.bigTerm(y)))
		})
	}
	bin("Add", (*big.Int).Add, func(i *interpreter, x, y *Term) *Term { return i.tf.IBin(OIAdd, x, y) }, false)
	bin("Sub", (*big.Int).Sub, func(i *interpreter, x, y *Term) *Term { return i.tf.IBin(OISub, x, y) }, false)
	bin("Mul", (*big.Int).Mul, func(i *interpreter, x, y *Term) *Term { return i.tf.IBin(OIMul, x, y) }, false)
	bin("Quo", (*big.Int).Quo, func(i *interpreter, x, y *Term) *Term { return i.tdiv(x, y) }, true)
	bin("Rem", (*big.Int).Rem, func(i *interpreter, x, y *Term) *Term { return i.trem(x, y) }, true)
	bin("Div", (*big.Int).Div, func(i *interpreter, x, y *Term) *Term { return i.tf.IBin(OIDiv, x, y) }, true)
	bin("Mod", (*big.Int).Mod, func(i *interpreter, x, y *Term) *Term { return i.tf.IBin(OIMod, x, y) }, true)

	regSimple(B+"QuoRem", func(fr *frame, args []value) value {
		i := fr.i
		x, y := i.bigGet(args[1], "QuoRem"), i.bigGet(args[2], "QuoRem")
		if y.c != nil && y.c.Sign() == 0 {
			panic(targetPanic{"division by zero"})
		}
		if y.t != nil && i.branch(i.tf.Eq(y.t, i.tf.Int(0))) {
			panic(targetPanic{"division by zero"})
		}
		if x.c != nil && y.c != nil {
			q, r := new(big.Int).QuoRem(x.c, y.c, new(big.Int))
			i.bigSetC(args[0], q)
			i.bigSetC(args[3], r)
			return tuple{args[0], args[3]}
		}
		xt, yt := i.bigTerm(x), i.bigTerm(y)
		i.bigSet(args[0], i.tdiv(xt, yt))
		i.bigSet(args[3], i.trem(xt, yt))
		return tuple{args[0], args[3]}
	})
	un := func(name string, cf func(z, x *big.Int) *big.Int, sf func(i *interpreter, x *Term) *Term) {
		regSimple(B+name, func(fr *frame, args []value) value {
			i := fr.i
			x := i.bigGet(args[1], name)
			if x.c != nil {
				return i.bigSetC(args[0], cf(new(big.Int), x.c))
			}
			return i.bigSet(args[0], sf(i, x.t))
		})
	}
	un("Neg", (*big.Int).Neg, func(i *interpreter, x *Term) *Term { return i.tf.INeg(x) })
	un("Abs", (*big.Int).Abs, func(i *interpreter, x *Term) *Term { return i.tf.IAbs(x) })
	un("Set", (*big.Int).Set, func(i *interpreter, x *Term) *Term { return x })

	cmpTerm := func(i *interpreter, a, b *Term) value {
		f := i.tf
		r := f.Ite(f.ICmp(OILt, a, b), f.BVs(64, -1), f.Ite(f.Eq(a, b), f.BV(64, 0), f.BV(64, 1)))
		return fixType(types.Typ[types.Int], r)
	}
	regSimple(B+"Cmp", func(fr *frame, args []value) value {
		i := fr.i
		x, y := i.bigGet(args[0], "Cmp"), i.bigGet(args[1], "Cmp")
		if x.c != nil && y.c != nil {
			return x.c.Cmp(y.c)
		}
		return cmpTerm(i, i.bigTerm(x), i.bigTerm(y))
	})
	regSimple(B+"CmpAbs", func(fr *frame, args []value) value {
		i := fr.i
		x, y := i.bigGet(args[0], "CmpAbs"), i.bigGet(args[1], "CmpAbs")
		if x.c != nil && y.c != nil {
			return x.c.CmpAbs(y.c)
		}
		return cmpTerm(i, i.tf.IAbs(i.bigTerm(x)), i.tf.IAbs(i.bigTerm(y)))
	})
	regSimple(B+"Sign", func(fr *frame, args []value) value {
		i := fr.i
		x := i.bigGet(args[0], "Sign")
		if x.c != nil {
			return x.c.Sign()
		}
		return cmpTerm(i, x.t, i.tf.Int(0))
	})
	regSimple(B+"BitLen", func(fr *frame, args []value) value {
		i := fr.i
		x := i.bigGet(args[0], "BitLen")
		if x.c != nil {
			return x.c.BitLen()
		}
		// exact: ite chain over the powers of two up to the value's known range
		f := i.tf
		a := f.IAbs(x.t)
		maxBits := 320
		exact := false
		if lo, hi := irange(x.t); lo != nil {
			m := new(big.Int).Abs(lo)
			if h := new(big.Int).Abs(hi); h.Cmp(m) > 0 {
				m = h
			}
			maxBits, exact = m.BitLen(), true
		}
		var r *Term
		if exact {
			r = f.Int(int64(maxBits))
		} else {
			i.stub(fmt.Sprintf("big.Int.BitLen of a value with unknown range: exact up to %d bits, arbitrary above", maxBits))
			top := i.fresh("bitlen", sortInt)
			i.addPC(f.mk(OILe, sortBool, f.Int(int64(maxBits+1)), top))
			r = top
			maxBits++
		}
		for k := maxBits - 1; k >= 0; k-- {
			pow := new(big.Int).Lsh(big.NewInt(1), uint(k))
			r = f.Ite(f.ICmp(OILt, a, f.IntB(pow)), f.Int(int64(k)), r)
		}
		if r.sort.K == SInt && r.lo == nil {
			r.lo, r.hi = big.NewInt(0), big.NewInt(int64(maxBits+1))
		}
		return r
	})
	regSimple(B+"SetInt64", func(fr *frame, args []value) value {
		i := fr.i
		if tm, ok := args[1].(*Term); ok {
			return i.bigSet(args[0], i.intOf(types.Typ[types.Int64], tm))
		}
		return i.bigSetC(args[0], big.NewInt(args[1].(int64)))
	})
	regSimple(B+"SetUint64", func(fr *frame, args []value) value {
		i := fr.i
		if tm, ok := args[1].(*Term); ok {
			return i.bigSet(args[0], i.intOf(types.Typ[types.Uint64], tm))
		}
		return i.bigSetC(args[0], new(big.Int).SetUint64(args[1].(uint64)))
	})
	regSimple("math/big.NewInt", func(fr *frame, args []value) value {
		i := fr.i
		cell := new(value)
		if tm, ok := args[0].(*Term); ok {
			return i.bigSet(cell, i.intOf(types.Typ[types.Int64], tm))
		}
		return i.bigSetC(cell, big.NewInt(args[0].(int64)))
	})
	regSimple(B+"Int64", func(fr *frame, args []value) value {
		i := fr.i
		x := i.bigGet(args[0], "Int64")
		if x.c != nil {
			return x.c.Int64()
		}
		return i.wrapInt(x.t, 64, true)
	})
	regSimple(B+"Uint64", func(fr *frame, args []value) value {
		i := fr.i
		x := i.bigGet(args[0], "Uint64")
		if x.c != nil {
			return x.c.Uint64()
		}
		return i.wrapInt(x.t, 64, false)
	})
	regSimple(B+"IsInt64", func(fr *frame, args []value) value {
		i := fr.i
		x := i.bigGet(args[0], "IsInt64")
		if x.c != nil {
			return x.c.IsInt64()
		}
		f := i.tf
		lo, hi := typeRange(64, true)
		return boolVal(f.And(f.ICmp(OILe, f.IntB(lo), x.t), f.ICmp(OILe, x.t, f.IntB(hi))))
	})
	regSimple(B+"IsUint64", func(fr *frame, args []value) value {
		i := fr.i
		x := i.bigGet(args[0], "IsUint64")
		if x.c != nil {
			return x.c.IsUint64()
		}
		f := i.tf
		lo, hi := typeRange(64, false)
		return boolVal(f.And(f.ICmp(OILe, f.IntB(lo), x.t), f.ICmp(OILe, x.t, f.IntB(hi))))
	})
	regSimple(B+"SetString", func(fr *frame, args []value) value {
		i := fr.i
		s := mustString(args[1], "big.Int.SetString")
		r, ok := new(big.Int).SetString(s, int(asInt64(args[2])))
		if !ok {
			return tuple{(*value)(nil), false}
		}
		return tuple{i.bigSetC(args[0], r), true}
	})
	str := func(fr *frame, args []value) value {
		x := fr.i.bigGet(args[0], "String")
		if x.c == nil {
			return "<symbolic-big>"
		}
		return x.c.String()
	}
	regSimple(B+"String", str)
	regSimple(B+"Text", func(fr *frame, args []value) value {
		x := fr.i.bigGet(args[0], "Text")
		if x.c == nil {
			return "<symbolic-big>"
		}
		return x.c.Text(int(asInt64(args[1])))
	})
	regSimple(B+"MarshalText", func(fr *frame, args []value) value {
		x := fr.i.bigGet(args[0], "MarshalText")
		if x.c == nil {
			unsupported("MarshalText of symbolic big.Int")
		}
		bs, _ := x.c.MarshalText()
		out := make([]value, len(bs))
		for k, b := range bs {
			out[k] = b
		}
		return tuple{out, iface{}}
	})
	regSimple(B+"SetBytes", func(fr *frame, args []value) value {
		i := fr.i
		bs := args[1].([]value)
		f := i.tf
		allc := true
		for _, b := range bs {
			if _, ok := b.(uint8); !ok {
				allc = false
			}
		}
		if allc {
			raw := make([]byte, len(bs))
			for k, b := range bs {
				raw[k] = b.(uint8)
			}
			return i.bigSetC(args[0], new(big.Int).SetBytes(raw))
		}
		var acc *Term
		for _, b := range bs {
			if acc == nil {
				acc = i.byteTerm(b)
			} else {
				acc = f.Concat(acc, i.byteTerm(b))
			}
		}
		return i.bigSet(args[0], f.Bv2Int(acc))
	})
	regSimple(B+"Bytes", func(fr *frame, args []value) value {
		x := fr.i.bigGet(args[0], "Bytes")
		if x.c == nil {
			unsupported("Bytes of symbolic big.Int")
		}
		raw := x.c.Bytes()
		out := make([]value, len(raw))
		for k, b := range raw {
			out[k] = b
		}
		return out
	})
	regSimple(B+"Exp", func(fr *frame, args []value) value {
		i := fr.i
		x, y := i.bigGet(args[1], "Exp"), i.bigGet(args[2], "Exp")
		var m *bigv
		if mp, ok := args[3].(*value); ok && mp != nil {
			m = i.bigGet(args[3], "Exp")
		}
		if y.c == nil || (m != nil && m.c == nil) {
			unsupported("big.Int.Exp with symbolic exponent/modulus")
		}
		if x.c != nil {
			var mc *big.Int
			if m != nil {
				mc = m.c
			}
			return i.bigSetC(args[0], new(big.Int).Exp(x.c, y.c, mc))
		}
		if m != nil || !y.c.IsInt64() || y.c.Int64() > 64 || y.c.Sign() < 0 {
			unsupported("big.Int.Exp symbolic base with large exponent")
		}
		acc := i.tf.Int(1)
		for k := int64(0); k < y.c.Int64(); k++ {
			acc = i.tf.IBin(OIMul, acc, x.t)
		}
		return i.bigSet(args[0], acc)
	})
	shift := func(name string, left bool) {
		regSimple(B+name, func(fr *frame, args []value) value {
			i := fr.i
			x := i.bigGet(args[1], name)
			n, ok := args[2].(uint)
			if !ok {
				unsupported("big.Int.%s with symbolic shift", name)
			}
			if x.c != nil {
				if left {
					return i.bigSetC(args[0], new(big.Int).Lsh(x.c, n))
				}
				return i.bigSetC(args[0], new(big.Int).Rsh(x.c, n))
			}
			p := i.tf.IntB(new(big.Int).Lsh(big.NewInt(1), n))
			if left {
				return i.bigSet(args[0], i.tf.IBin(OIMul, x.t, p))
			}
			return i.bigSet(args[0], i.tf.IBin(OIDiv, x.t, p)) // floor, as math/big documents for Rsh
		})
	}
	shift("Lsh", true)
	shift("Rsh", false)
	regSimple(B+"ProbablyPrime", func(fr *frame, args []value) value {
		x := fr.i.bigGet(args[0], "ProbablyPrime")
		if x.c == nil {
			unsupported("ProbablyPrime of symbolic value")
		}
		return x.c.ProbablyPrime(int(asInt64(args[1])))
	})
}
