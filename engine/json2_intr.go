package main

func init() {
	regSimple("encoding/json.MarshalIndent", func(fr *frame, args []value) value {
		r, _ := intrinsics["encoding/json.Marshal"](fr, args[:1])
		return r
	})
}
