package main

// Ideal (collision-free) hash model and the canonical injective encoder standing in for
// encoding/json where the exact bytes are not the subject.

import (
	"fmt"
	"go/types"
	"math/big"
	"sort"
)

// idealHash applies hash `kind` to in. Concrete input: the real hash. Symbolic input: fresh output
// bytes constrained to be functional and injective w.r.t. every other application on this path.
func (i *interpreter) idealHash(kind string, in []value, outLen int) []value {
	p := i.path
	f := i.tf
	allc := true
	for _, b := range in {
		if _, ok := b.(uint8); !ok {
			allc = false
			break
		}
	}
	var inT, outT []*Term
	out := make([]value, outLen)
	for _, b := range in {
		inT = append(inT, i.byteTerm(b))
	}
	if !allc {
		// the same input terms were hashed before on this path: same output (no fresh variables)
		for _, prev := range p.hashApps[kind] {
			if prev.concrete || len(prev.in) != len(inT) || len(prev.out) != outLen {
				continue
			}
			same := true
			for k := range inT {
				if prev.in[k] != inT[k] {
					same = false
					break
				}
			}
			if same {
				for k := 0; k < outLen; k++ {
					out[k] = prev.out[k]
				}
				return out
			}
		}
	}
	if allc {
		raw := make([]byte, len(in))
		for k, b := range in {
			raw[k] = b.(uint8)
		}
		h := hostHash(kind, raw)
		for k := 0; k < outLen; k++ {
			out[k] = h[k]
			outT = append(outT, f.BV(8, uint64(h[k])))
		}
	} else {
		i.stub("ideal hash (" + kind + "): symbolic inputs map to fresh outputs, functional and injective (collision-free)")
		for k := 0; k < outLen; k++ {
			v := i.fresh("h", bvSort(8))
			out[k] = v
			outT = append(outT, v)
		}
	}
	eqAll := func(a, b []*Term) *Term {
		acc := f.Bool(true)
		for k := range a {
			acc = f.And(acc, f.Eq(a[k], b[k]))
		}
		return acc
	}
	for _, prev := range p.hashApps[kind] {
		if allc && prev.concrete {
			continue
		}
		if len(prev.in) != len(inT) {
			i.addPC(f.Not(eqAll(prev.out, outT)))
		} else {
			i.addPC(f.Eq(eqAll(prev.in, inT), eqAll(prev.out, outT)))
		}
		p.invalidateModel()
	}
	p.hashApps[kind] = append(p.hashApps[kind], hashApp{in: inT, out: outT, concrete: allc})
	return out
}

// canonEncode is an injective, deterministic encoding of v (static type t) into bytes that may
// be symbolic. Fixed-width for scalars, length-prefixed for sequences.
func (i *interpreter) canonEncode(t types.Type, v value, out *[]value, depth int) {
	if depth > 40 {
		unsupported("canonEncode: value too deep")
	}
	emit := func(bs ...byte) {
		for _, b := range bs {
			*out = append(*out, b)
		}
	}
	emitLen := func(n int) { emit(byte(n>>24), byte(n>>16), byte(n>>8), byte(n)) }
	f := i.tf
	switch ut := t.Underlying().(type) {
	case *types.Basic:
		switch {
		case ut.Info()&types.IsBoolean != 0:
			switch b := v.(type) {
			case bool:
				if b {
					emit(1)
				} else {
					emit(0)
				}
			case *Term:
				*out = append(*out, f.Ite(b, f.BV(8, 1), f.BV(8, 0)))
			}
		case ut.Info()&types.IsInteger != 0:
			w, _, _ := basicInfo(t)
			if tm, ok := v.(*Term); ok {
				bv := i.bvOf(t, tm)
				for k := w/8 - 1; k >= 0; k-- {
					*out = append(*out, fixType(types.Typ[types.Uint8], f.Extract(bv, 8*k+7, 8*k)))
				}
			} else {
				c, _ := concreteBig(v)
				c = new(big.Int).And(c, mask(w))
				for k := w/8 - 1; k >= 0; k-- {
					emit(byte(new(big.Int).Rsh(c, uint(8*k)).Uint64()))
				}
			}
		case ut.Info()&types.IsString != 0:
			bs := strBytes(v)
			emitLen(len(bs))
			*out = append(*out, bs...)
		case ut.Info()&types.IsFloat != 0:
			emit([]byte(fmt.Sprint(v))...)
		default:
			unsupported("canonEncode: basic type %s", t)
		}
	case *types.Slice:
		s := v.([]value)
		if s == nil {
			emit(0xff)
			return
		}
		emit(0xfe)
		emitLen(len(s))
		for k := range s {
			i.canonEncode(ut.Elem(), s[k], out, depth+1)
		}
	case *types.Array:
		for _, e := range v.(array) {
			i.canonEncode(ut.Elem(), e, out, depth+1)
		}
	case *types.Struct:
		if b, ok := v.(*bigv); ok {
			i.encodeBig(b, out)
			return
		}
		st := v.(structure)
		for k := 0; k < ut.NumFields(); k++ {
			i.canonEncode(ut.Field(k).Type(), st[k], out, depth+1)
		}
	case *types.Pointer:
		p := v.(*value)
		if p == nil {
			emit(0)
			return
		}
		emit(1)
		if b, ok := (*p).(*bigv); ok {
			i.encodeBig(b, out)
			return
		}
		i.canonEncode(ut.Elem(), *p, out, depth+1)
	case *types.Interface:
		x := v.(iface)
		if x.t == nil {
			emit(0)
			return
		}
		emit(1)
		name := x.t.String()
		emitLen(len(name))
		emit([]byte(name)...)
		i.canonEncode(x.t, x.v, out, depth+1)
	case *types.Map:
		m := v.(*amap)
		if m == nil {
			emit(0)
			return
		}
		emit(1)
		// entries sorted by concrete key rendering (json sorts map keys); symbolic keys unsupported
		type ent struct {
			k string
			s int
		}
		var ents []ent
		for s := range m.keys {
			if !m.live[s] {
				continue
			}
			if !indexable(m.keys[s]) {
				unsupported("canonEncode: map with non-basic or symbolic keys")
			}
			ents = append(ents, ent{fmt.Sprint(m.keys[s]), s})
		}
		sort.Slice(ents, func(a, b int) bool { return ents[a].k < ents[b].k })
		emitLen(len(ents))
		for _, e := range ents {
			i.canonEncode(ut.Key(), m.keys[e.s], out, depth+1)
			i.canonEncode(ut.Elem(), m.vals[e.s], out, depth+1)
		}
	default:
		unsupported("canonEncode: type %s", t)
	}
}

func (i *interpreter) encodeBig(b *bigv, out *[]value) {
	f := i.tf
	if b.c != nil {
		s := b.c.String()
		*out = append(*out, byte(len(s)))
		for k := 0; k < len(s); k++ {
			*out = append(*out, s[k])
		}
		return
	}
	lo, hi := irange(b.t)
	w := 320
	if lo != nil && lo.Sign() >= 0 && hi.BitLen() <= 64 {
		w = 64
	}
	bv := f.Int2Bv(b.t, w)
	*out = append(*out, byte(0xfd))
	for k := w/8 - 1; k >= 0; k-- {
		*out = append(*out, fixType(types.Typ[types.Uint8], f.Extract(bv, 8*k+7, 8*k)))
	}
}

func init() {
	regSimple("encoding/json.Marshal", func(fr *frame, args []value) value {
		i := fr.i
		i.stub("encoding/json.Marshal replaced by a canonical injective encoding (exact JSON bytes are not modelled)")
		x := args[0].(iface)
		var out []value
		out = append(out, byte('J'))
		if x.t != nil {
			i.canonEncode(x.t, x.v, &out, 0)
		}
		return tuple{out, iface{}}
	})
	regSimple("github.com/pokt-network/pocket-core/x/pocketcore/types.Hash", func(fr *frame, args []value) value {
		return fr.i.idealHash("sha3-256", args[0].([]value), 32)
	})
	hexEnc := func(fr *frame, args []value) value {
		// hex.EncodeToString on symbolic bytes: two nibble characters per byte
		i := fr.i
		f := i.tf
		in := args[0].([]value)
		out := make(symstr, 0, 2*len(in))
		nib := func(n *Term) value {
			// n: 4-bit value zero-extended to 8 bits
			isDigit := f.BvCmp(OBvUlt, n, f.BV(8, 10))
			return fixType(types.Typ[types.Uint8], f.Ite(isDigit, f.BvBin(OBvAdd, n, f.BV(8, '0')), f.BvBin(OBvAdd, n, f.BV(8, 'a'-10))))
		}
		for _, b := range in {
			t := i.byteTerm(b)
			hi, lo := nib(f.Zext(f.Extract(t, 7, 4), 8)), nib(f.Zext(f.Extract(t, 3, 0), 8))
			if _, conc := b.(uint8); !conc {
				// remembered so that hex.DecodeString gives back exactly this byte
				org := i.hexOrigins()
				org[i.byteTerm(hi)] = hexOrigin{t, true}
				org[i.byteTerm(lo)] = hexOrigin{t, false}
			}
			out = append(out, hi, lo)
		}
		return normStr(out)
	}
	regSimple("encoding/hex.EncodeToString", hexEnc)
}
