package main

func init() {
	// go-amino used directly (crypto package, tendermint types): same opaque codec
	A := "(*github.com/tendermint/go-amino.Codec)."
	type mk struct {
		name      string
		marker    byte
		unm, must bool
	}
	for _, m := range []mk{
		{"MarshalBinaryBare", 'B', false, false}, {"MustMarshalBinaryBare", 'B', false, true},
		{"UnmarshalBinaryBare", 'B', true, false}, {"MustUnmarshalBinaryBare", 'B', true, true},
		{"MarshalBinaryLengthPrefixed", 'L', false, false}, {"MustMarshalBinaryLengthPrefixed", 'L', false, true},
		{"UnmarshalBinaryLengthPrefixed", 'L', true, false}, {"MustUnmarshalBinaryLengthPrefixed", 'L', true, true},
		{"MarshalJSON", 'j', false, false}, {"MustMarshalJSON", 'j', false, true},
		{"UnmarshalJSON", 'j', true, false}, {"MustUnmarshalJSON", 'j', true, true},
	} {
		m := m
		regSimple(A+m.name, func(fr *frame, args []value) value {
			i := fr.i
			if m.unm {
				err := i.codecUnmarshal(m.marker, args[1], args[2])
				if m.must {
					if e := err.(iface); e.t != nil {
						panic(targetPanic{err})
					}
					return nil
				}
				return err
			}
			r := i.codecMarshal(m.marker, args[1]).(tuple)
			if m.must {
				if e := r[1].(iface); e.t != nil {
					panic(targetPanic{r[1]})
				}
				return r[0]
			}
			return r
		})
	}
}

func init() {
	regSimple("github.com/pokt-network/pocket-core/codec.NewLegacyAminoCodec", func(fr *frame, args []value) value {
		pkg := fr.i.prog.ImportedPackage("github.com/pokt-network/pocket-core/codec")
		cell := new(value)
		*cell = zero(pkg.Type("LegacyAmino").Object().Type())
		return cell
	})
}
