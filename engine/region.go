package main

// Region execution: run the tail of a real function starting right after a named call, with that
// call's result supplied by the harness. Used for logic that sits inline in functions that cannot
// be executed as a whole (app.NewPocketCoreApp).

import (
	"strings"

	"golang.org/x/tools/go/ssa"
)

func (s *shared) findFunc(name string) *ssa.Function {
	for _, pkg := range s.prog.AllPackages() {
		for _, m := range pkg.Members {
			if fn, ok := m.(*ssa.Function); ok && fn.String() == name {
				return fn
			}
		}
	}
	return nil
}

func init() {
	// RunRegion(function, calleeSuffix, result) bool
	regSimple(rtPkg+".RunRegion", func(fr *frame, args []value) value {
		i := fr.i
		fname := mustString(args[0], "RunRegion function")
		callee := mustString(args[1], "RunRegion callee")
		res := args[2].(iface)
		fn := i.findFunc(fname)
		if fn == nil || fn.Blocks == nil {
			unsupported("RunRegion: function %s not found in the loaded program", fname)
		}
		var blk *ssa.BasicBlock
		idx := -1
		for _, b := range fn.Blocks {
			for k, ins := range b.Instrs {
				c, ok := ins.(*ssa.Call)
				if !ok {
					continue
				}
				if sc := c.Call.StaticCallee(); sc != nil && strings.HasSuffix(sc.String(), callee) {
					if idx >= 0 {
						unsupported("RunRegion: more than one call to %s in %s", callee, fname)
					}
					blk, idx = b, k
				}
			}
		}
		if idx < 0 {
			unsupported("RunRegion: no call to %s in %s (the anchored region changed shape)", callee, fname)
		}
		i.stub("region execution: " + fname + " is run from just after its call to " + callee + " with the call's result supplied by the harness; values computed earlier in the function are absent")
		nf := &frame{i: i, caller: fr, fn: fn}
		nf.info = i.info(fn)
		nf.env = make([]value, nf.info.n)
		nf.visits = make([]int32, len(fn.Blocks))
		nf.locals = make([]value, len(fn.Locals))
		for k, l := range fn.Locals {
			nf.locals[k] = zero(mustDeref(l.Type()))
			nf.env[nf.info.regs[l]] = &nf.locals[k]
		}
		// allocations made earlier in the function (heap-allocated locals) exist, zero-valued
		for _, b := range fn.Blocks {
			for _, ins := range b.Instrs {
				if a, ok := ins.(*ssa.Alloc); ok && a.Heap {
					cell := new(value)
					*cell = zero(mustDeref(a.Type()))
					nf.env[nf.info.regs[a]] = cell
				}
			}
		}
		call := blk.Instrs[idx].(*ssa.Call)
		nf.env[nf.info.regs[call]] = res.v
		nf.block = blk
		// run the remainder of the block, then continue normally
		for _, ins := range blk.Instrs[idx+1:] {
			switch visitInstr(nf, ins) {
			case kReturn:
				return true
			case kJump:
				for nf.block != nil {
					runFrame(nf)
				}
				return true
			}
		}
		return true
	})
}

func init() {
	regSimple(rtPkg+".Replace", func(fr *frame, args []value) value {
		name := mustString(args[0], "Replace function name")
		x := args[1].(iface)
		if fr.i.findFunc(name) == nil && !strings.HasPrefix(name, "(") {
			unsupported("Replace: function %s not found in the loaded program", name)
		}
		fr.i.stub("callee replaced by a harness stand-in (contract): " + name)
		fr.i.hostData["replace:"+name] = x.v
		return true
	})
}
