package main

import "strings"

// stackOf renders the innermost target frames (for diagnostics in INCONCLUSIVE reasons).
func stackOf(fr *frame, n int) string {
	var parts []string
	for f := fr; f != nil && len(parts) < n; f = f.caller {
		parts = append(parts, f.fn.String())
	}
	return strings.Join(parts, " <- ")
}
