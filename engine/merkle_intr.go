package main

func init() {
	regSimple("github.com/pokt-network/pocket-core/x/pocketcore/types.merkleHash", func(fr *frame, args []value) value {
		return fr.i.idealHash("blake2b-256", args[0].([]value), 32)
	})
}
