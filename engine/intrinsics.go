package main

// Intrinsics: functions intercepted by qualified name (ssa.Function.String(), or the origin's
// name for generic instances). Each returns (result, handled); handled=false falls through to
// the function's SSA body.

import (
	"fmt"
	"go/types"
	"math/big"
	"os"
	"strings"

	"golang.org/x/tools/go/ssa"
)

type intrinsic func(fr *frame, args []value) (value, bool)

var intrinsics = map[string]intrinsic{}

const rtPkg = "github.com/pokt-network/pocket-core/verifrt"

func reg(name string, f intrinsic) { intrinsics[name] = f }

func regSimple(name string, f func(fr *frame, args []value) value) {
	intrinsics[name] = func(fr *frame, args []value) (value, bool) { return f(fr, args), true }
}

func (i *interpreter) stub(name string) {
	if i.path != nil {
		i.path.stubs[name] = true
	}
}

func goString(v value) (string, bool) {
	s, ok := v.(string)
	return s, ok
}

func mustString(v value, what string) string {
	s, ok := v.(string)
	if !ok {
		unsupported("%s: symbolic string argument", what)
	}
	return s
}

func init() {
	// ---------------- verifrt ----------------
	nondet := func(kind string, w int, t types.BasicKind) {
		name := map[string]string{"u8": "U8", "u16": "U16", "u32": "U32", "u64": "U64", "i64": "I64", "i32": "I32"}[kind]
		regSimple(rtPkg+"."+name, func(fr *frame, args []value) value {
			i := fr.i
			if v, ok := i.replayNext(); ok {
				return fromBig(types.Typ[t], v)
			}
			return i.newVar(kind, bvSort(w))
		})
	}
	nondet("u8", 8, types.Uint8)
	nondet("u16", 16, types.Uint16)
	nondet("u32", 32, types.Uint32)
	nondet("u64", 64, types.Uint64)
	nondet("i64", 64, types.Int64)
	nondet("i32", 32, types.Int32)
	regSimple(rtPkg+".Bool", func(fr *frame, args []value) value {
		i := fr.i
		if v, ok := i.replayNext(); ok {
			return v.Sign() != 0
		}
		return i.newVar("bool", sortBool)
	})
	regSimple(rtPkg+".Int64In", func(fr *frame, args []value) value {
		i := fr.i
		lo, hi := asInt64(args[0]), asInt64(args[1])
		if v, ok := i.replayNext(); ok {
			if v.Int64() < lo || v.Int64() > hi {
				panic(engineAbort{abInfeasible, "replayed value outside range"})
			}
			return v.Int64()
		}
		if lo > hi {
			panic(engineAbort{abInfeasible, "empty range"})
		}
		if lo == hi {
			i.path.tape = append(i.path.tape, tapeEntry{Kind: "int", Val: fmt.Sprint(lo)})
			return lo
		}
		v := i.newVar("int", sortInt)
		v.lo, v.hi = big.NewInt(lo), big.NewInt(hi)
		f := i.tf
		i.addPC(f.And(f.mk(OILe, sortBool, f.Int(lo), v), f.mk(OILe, sortBool, v, f.Int(hi))))
		if i.path.model != nil {
			if _, have := i.path.model[v.name]; !have {
				i.path.model[v.name] = big.NewInt(lo)
			}
		}
		return v
	})
	regSimple(rtPkg+".IntIn", func(fr *frame, args []value) value {
		r, _ := intrinsics[rtPkg+".Int64In"](fr, []value{int64(args[0].(int)), int64(args[1].(int))})
		if c, ok := r.(int64); ok {
			return int(c)
		}
		return r
	})
	regSimple(rtPkg+".BigIn", func(fr *frame, args []value) value {
		i := fr.i
		lo, _ := new(big.Int).SetString(mustString(args[0], "BigIn"), 10)
		hi, _ := new(big.Int).SetString(mustString(args[1], "BigIn"), 10)
		cell := new(value)
		if v, ok := i.replayNext(); ok {
			*cell = &bigv{c: v}
			return cell
		}
		v := i.newVar("big", sortInt)
		v.lo, v.hi = lo, hi
		f := i.tf
		i.addPC(f.And(f.mk(OILe, sortBool, f.IntB(lo), v), f.mk(OILe, sortBool, v, f.IntB(hi))))
		if i.path.model != nil {
			if _, have := i.path.model[v.name]; !have {
				i.path.model[v.name] = lo
			}
		}
		*cell = &bigv{t: v}
		return cell
	})
	regSimple(rtPkg+".Choice", func(fr *frame, args []value) value {
		i := fr.i
		n := int(asInt64(args[0]))
		if v, ok := i.replayNext(); ok {
			return int(v.Int64())
		}
		d := i.choice(n)
		i.path.tape = append(i.path.tape, tapeEntry{Kind: "choice", Val: fmt.Sprint(d), N: n})
		return d
	})
	regSimple(rtPkg+".Concretize", func(fr *frame, args []value) value {
		i := fr.i
		tm, ok := args[0].(*Term)
		if !ok {
			return args[0]
		}
		k, ok := i.concretize(tm, asInt64(args[1]), asInt64(args[2]))
		if !ok {
			panic(engineAbort{abInfeasible, "Concretize: outside range"})
		}
		return k
	})
	regSimple(rtPkg+".Assume", func(fr *frame, args []value) value {
		fr.i.assume(fr.i.boolTerm(args[0]))
		return nil
	})
	regSimple(rtPkg+".Assert", func(fr *frame, args []value) value {
		fr.i.assert(fr.i.boolTerm(args[0]), mustString(args[1], "Assert label"), nil)
		return nil
	})
	regSimple(rtPkg+".AssertK", func(fr *frame, args []value) value {
		var ids []string
		for _, r := range args[2].([]value) {
			ids = append(ids, r.(structure)[0].(string))
		}
		fr.i.assert(fr.i.boolTerm(args[0]), mustString(args[1], "AssertK label"), ids)
		return nil
	})
	regSimple(rtPkg+".Known", func(fr *frame, args []value) value {
		id := mustString(args[0], "Known id")
		fr.i.path.known[id] = fr.i.boolTerm(args[1])
		return structure{id, args[1]}
	})
	regSimple(rtPkg+".Reach", func(fr *frame, args []value) value {
		fr.i.path.reached[mustString(args[0], "Reach")] = true
		return nil
	})
	regSimple(rtPkg+".Observe", func(fr *frame, args []value) value {
		fr.i.path.observes = append(fr.i.path.observes, observed{mustString(args[0], "Observe"), args[1]})
		return nil
	})
	boolop := func(name string, f func(tf *TF, a, b *Term) *Term) {
		regSimple(rtPkg+"."+name, func(fr *frame, args []value) value {
			return boolVal(f(fr.i.tf, fr.i.boolTerm(args[0]), fr.i.boolTerm(args[1])))
		})
	}
	boolop("And", func(tf *TF, a, b *Term) *Term { return tf.And(a, b) })
	boolop("Or", func(tf *TF, a, b *Term) *Term { return tf.Or(a, b) })
	boolop("Implies", func(tf *TF, a, b *Term) *Term { return tf.Implies(a, b) })
	boolop("Iff", func(tf *TF, a, b *Term) *Term { return tf.Eq(a, b) })
	regSimple(rtPkg+".Not", func(fr *frame, args []value) value { return fr.i.notv(args[0]) })
	reg(rtPkg+".Ite", func(fr *frame, args []value) (value, bool) {
		c, ok := args[0].(*Term)
		if !ok {
			if args[0].(bool) {
				return args[1], true
			}
			return args[2], true
		}
		T := fr.fn.Signature.Params().At(1).Type()
		return fr.i.iteValue(T, c, args[1], args[2]), true
	})
	regSimple(rtPkg+".Tier", func(fr *frame, args []value) value { return fr.i.cfg.Tier })
	regSimple(rtPkg+".MapOrderNondet", func(fr *frame, args []value) value { fr.i.path.mapNondet = true; return nil })
	regSimple(rtPkg+".Outside", func(fr *frame, args []value) value {
		fr.i.path.outside = append(fr.i.path.outside, mustString(args[0], "Outside"))
		return nil
	})
	regSimple(rtPkg+".Stub", func(fr *frame, args []value) value {
		fr.i.stub(mustString(args[0], "Stub"))
		return nil
	})

	// ---------------- bytes / strings (assembly-backed) ----------------
	cmp := func(fr *frame, a, b []value) value {
		i := fr.i
		lt, eq := i.lexCmp(a, b)
		f := i.tf
		r := f.Ite(lt, f.BVs(64, -1), f.Ite(eq, f.BV(64, 0), f.BV(64, 1)))
		return fixType(types.Typ[types.Int], r)
	}
	bytesOf := func(v value) []value {
		switch v := v.(type) {
		case []value:
			return v
		case string, symstr:
			return strBytes(v)
		}
		panic(fmt.Sprintf("bytesOf %T", v))
	}
	for _, n := range []string{"bytes.Compare", "internal/bytealg.Compare", "strings.Compare", "internal/bytealg.CompareString", "runtime.cmpstring"} {
		regSimple(n, func(fr *frame, args []value) value { return cmp(fr, bytesOf(args[0]), bytesOf(args[1])) })
	}
	for _, n := range []string{"bytes.Equal", "internal/bytealg.Equal"} {
		regSimple(n, func(fr *frame, args []value) value {
			_, eq := fr.i.lexCmp(bytesOf(args[0]), bytesOf(args[1]))
			return boolVal(eq)
		})
	}
	indexByte := func(fr *frame, args []value) value {
		bs := bytesOf(args[0])
		i := fr.i
		for k, b := range bs {
			switch r := i.eqv(types.Typ[types.Uint8], b, args[1]).(type) {
			case bool:
				if r {
					return k
				}
			case *Term:
				if i.branch(r) {
					return k
				}
			}
		}
		return -1
	}
	for _, n := range []string{"bytes.IndexByte", "internal/bytealg.IndexByte", "strings.IndexByte", "internal/bytealg.IndexByteString"} {
		regSimple(n, indexByte)
	}

	// ---------------- sync / atomic: sequential execution ----------------
	noop := func(fr *frame, args []value) value { return nil }
	for _, n := range []string{
		"(*sync.Mutex).Lock", "(*sync.Mutex).Unlock", "(*sync.RWMutex).Lock", "(*sync.RWMutex).Unlock",
		"(*sync.RWMutex).RLock", "(*sync.RWMutex).RUnlock", "(*sync.WaitGroup).Add", "(*sync.WaitGroup).Done",
		"(*sync.WaitGroup).Wait", "runtime.SetFinalizer", "runtime.KeepAlive", "runtime.GC", "runtime.Gosched",
		"(*sync.Pool).Put", "runtime.SetBlockProfileRate", "runtime.SetMutexProfileFraction",
	} {
		regSimple(n, noop)
	}
	regSimple("(*sync.Mutex).TryLock", func(fr *frame, args []value) value { return true })
	regSimple("(*sync.Pool).Get", func(fr *frame, args []value) value {
		// call p.New if set
		p := args[0].(*value)
		st := (*p).(structure)
		newf := st[len(st)-1]
		switch nf := newf.(type) {
		case *ssa.Function:
			if nf == nil {
				return iface{}
			}
		case nil:
			return iface{}
		}
		return call(fr.i, fr, 0, newf, nil)
	})
	regSimple("(*sync.Once).Do", func(fr *frame, args []value) value {
		p := args[0].(*value)
		key := fmt.Sprintf("once:%p", p)
		if fr.i.hostData[key] != nil {
			return nil
		}
		fr.i.hostData[key] = true
		call(fr.i, fr, 0, args[1], nil)
		return nil
	})

	// ---------------- process control ----------------
	regSimple("os.Exit", func(fr *frame, args []value) value {
		panic(engineAbort{abFatal, fmt.Sprintf("os.Exit(%v)", args[0])})
	})
	regSimple("os.Getenv", func(fr *frame, args []value) value { return "" })
	regSimple("os.LookupEnv", func(fr *frame, args []value) value { return tuple{"", false} })
	regSimple("runtime.Caller", func(fr *frame, args []value) value { return tuple{uintptr(0), "", 0, false} })
	regSimple("runtime.Callers", func(fr *frame, args []value) value { return 0 })
	regSimple("runtime/debug.Stack", func(fr *frame, args []value) value { return []value{} })
	regSimple("runtime/debug.PrintStack", noop)
	regSimple("time.Sleep", noop)

	// ---------------- sort.Slice (reflect-based swapper) ----------------
	sortSlice := func(fr *frame, args []value) value {
		s := args[0].(iface).v.([]value)
		less := args[1]
		i := fr.i
		// insertion sort: stable, O(n²) calls; fine for harness-sized inputs
		for a := 1; a < len(s); a++ {
			for b := a; b > 0; b-- {
				r := call(i, fr, 0, less, []value{b, b - 1})
				var lt bool
				switch r := r.(type) {
				case bool:
					lt = r
				case *Term:
					lt = i.branch(r)
				}
				if !lt {
					break
				}
				s[b], s[b-1] = s[b-1], s[b]
			}
		}
		return nil
	}
	regSimple("sort.Slice", sortSlice)
	regSimple("sort.SliceStable", sortSlice)

	// ---------------- fmt / errors ----------------
	regSimple("fmt.Sprintf", func(fr *frame, args []value) value { return fr.i.sprintf(args[0], args[1].([]value)) })
	regSimple("fmt.Sprint", func(fr *frame, args []value) value { return fr.i.sprint(args[0].([]value), false) })
	regSimple("fmt.Sprintln", func(fr *frame, args []value) value { return fr.i.sprint(args[0].([]value), true) })
	regSimple("fmt.Errorf", func(fr *frame, args []value) value {
		return fr.i.newError(fr.i.sprintf(args[0], args[1].([]value)))
	})
	for _, n := range []string{"fmt.Println", "fmt.Printf", "fmt.Print", "log.Println", "log.Printf", "log.Print"} {
		regSimple(n, func(fr *frame, args []value) value { return tuple{0, iface{}} })
	}
	for _, n := range []string{"fmt.Fprintf", "fmt.Fprintln", "fmt.Fprint"} {
		regSimple(n, func(fr *frame, args []value) value { return tuple{0, iface{}} })
	}
	for _, n := range []string{"log.Fatal", "log.Fatalf", "log.Fatalln"} {
		name := n
		regSimple(n, func(fr *frame, args []value) value { panic(engineAbort{abFatal, name}) })
	}
}

// replayNext returns the next recorded nondet value when the engine replays a counterexample
// concretely.
func (i *interpreter) replayNext() (*big.Int, bool) {
	p := i.path
	if p.replayVal == nil {
		return nil, false
	}
	if p.replayPos >= len(p.replayVal) {
		return new(big.Int), true
	}
	v := p.replayVal[p.replayPos]
	p.replayPos++
	return v, true
}

// iteValue builds ite(c,x,y) for scalar values and equal-length byte slices/strings.
func (i *interpreter) iteValue(T types.Type, c *Term, x, y value) value {
	f := i.tf
	switch u := T.Underlying().(type) {
	case *types.Basic:
		if u.Info()&types.IsBoolean != 0 {
			return boolVal(f.Ite(c, i.boolTerm(x), i.boolTerm(y)))
		}
		if _, _, ok := basicInfo(T); ok {
			xt, xs := x.(*Term)
			yt, ys := y.(*Term)
			if (xs && xt.sort.K == SInt) || (ys && yt.sort.K == SInt) {
				return f.Ite(c, i.intOf(T, x), i.intOf(T, y))
			}
			return fixType(T, f.Ite(c, i.bvOf(T, x), i.bvOf(T, y)))
		}
		if u.Info()&types.IsString != 0 {
			xs, ys := strBytes(x), strBytes(y)
			if len(xs) == len(ys) {
				out := make(symstr, len(xs))
				for k := range xs {
					out[k] = fixType(types.Typ[types.Uint8], f.Ite(c, i.byteTerm(xs[k]), i.byteTerm(ys[k])))
				}
				return normStr(out)
			}
		}
	case *types.Slice:
		xs, ys := x.([]value), y.([]value)
		if len(xs) == len(ys) && (xs == nil) == (ys == nil) {
			if _, _, ok := basicInfo(u.Elem()); ok {
				out := make([]value, len(xs))
				for k := range xs {
					out[k] = fixType(u.Elem(), f.Ite(c, i.bvOf(u.Elem(), xs[k]), i.bvOf(u.Elem(), ys[k])))
				}
				return out
			}
		}
	case *types.Pointer:
		if bx, ok := i.bigPeek(x); ok {
			if by, ok := i.bigPeek(y); ok {
				cell := new(value)
				*cell = &bigv{t: f.Ite(c, i.bigTerm(bx), i.bigTerm(by))}
				return cell
			}
		}
	}
	// general case: fork
	if i.branch(c) {
		return x
	}
	return y
}

// newError builds an error value (errors.errorString) carrying msg.
func (i *interpreter) newError(msg value) value {
	pkg := i.prog.ImportedPackage("errors")
	if pkg == nil {
		unsupported("errors package not loaded")
	}
	t := pkg.Type("errorString").Object().Type()
	cell := new(value)
	*cell = structure{msg}
	return iface{t: types.NewPointer(t), v: cell}
}

// sprintf formats with concrete arguments through the host; symbolic arguments render as an
// opaque marker (formatting is not the subject of any property; keys that are built with fmt are
// modelled exactly elsewhere).
func (i *interpreter) sprintf(format value, args []value) value {
	fs, ok := format.(string)
	if !ok {
		return "<symbolic-format>"
	}
	hargs := make([]interface{}, len(args))
	i.hostArgBudget = 2000
	for k, a := range args {
		hargs[k] = i.hostArg(a)
	}
	if os.Getenv("GOSYM_FMTDEBUG") != "" {
		fmt.Fprintf(os.Stderr, "sprintf %q budget left %d\n", fs, i.hostArgBudget)
	}
	return fmt.Sprintf(fs, hargs...)
}

func (i *interpreter) sprint(args []value, ln bool) value {
	hargs := make([]interface{}, len(args))
	for k, a := range args {
		hargs[k] = i.hostArg(a)
	}
	if ln {
		return fmt.Sprintln(hargs...)
	}
	return fmt.Sprint(hargs...)
}

type opaqueArg struct{ s string }

func (o opaqueArg) String() string { return o.s }
func (o opaqueArg) Error() string  { return o.s }

// hostArg converts an interpreter value (usually an iface) to something fmt can print.
func (i *interpreter) hostArg(v value) interface{} {
	switch x := v.(type) {
	case iface:
		if x.t == nil {
			return nil
		}
		// error / Stringer: call the target's method when cheap and concrete (a String method run on
		// symbolic data would fork on formatting decisions, e.g. calendar arithmetic of a time)
		if hasSymbolic(x.v, 6) {
			return opaqueArg{"<symbolic>"}
		}
		if s, ok := i.tryStringMethod(x); ok {
			return opaqueArg{s}
		}
		return i.hostArgT(x.t, x.v)
	}
	return i.hostArgT(nil, v)
}

func (i *interpreter) tryStringMethod(x iface) (s string, ok bool) {
	defer func() {
		if r := recover(); r != nil {
			if ea, isAbort := r.(engineAbort); isAbort && ea.kind != abUnsupported {
				panic(r)
			}
			s, ok = "", false
		}
	}()
	for _, name := range []string{"Error", "String"} {
		mset := i.prog.MethodSets.MethodSet(x.t)
		sel := mset.Lookup(nil, name)
		if sel == nil {
			continue
		}
		sig := sel.Type().(*types.Signature)
		if sig.Params().Len() != 0 || sig.Results().Len() != 1 {
			continue
		}
		fn := i.prog.MethodValue(sel)
		if fn == nil {
			continue
		}
		if i.depth > i.cfg.MaxDepth-50 {
			return "", false
		}
		r := call(i, nil, 0, fn, []value{x.v})
		if str, isStr := r.(string); isStr {
			return str, true
		}
		return "<symbolic>", true
	}
	return "", false
}

func (i *interpreter) hostArgT(t types.Type, v value) interface{} {
	i.hostArgBudget--
	if i.hostArgBudget < 0 {
		return opaqueArg{"…"}
	}
	switch x := v.(type) {
	case nil:
		return nil
	case bool, int, int8, int16, int32, int64, uint, uint8, uint16, uint32, uint64, uintptr, float32, float64, string:
		return x
	case *Term, symstr:
		return opaqueArg{"<symbolic>"}
	case []value:
		// []byte?
		bs := make([]byte, len(x))
		for k, e := range x {
			b, ok := e.(uint8)
			if !ok {
				out := make([]interface{}, len(x))
				for j, e2 := range x {
					out[j] = i.hostArgT(nil, e2)
				}
				return out
			}
			bs[k] = b
		}
		return bs
	case array:
		out := make([]interface{}, len(x))
		allBytes := true
		bs := make([]byte, len(x))
		for j, e2 := range x {
			if b, ok := e2.(uint8); ok {
				bs[j] = b
			} else {
				allBytes = false
			}
			out[j] = i.hostArgT(nil, e2)
		}
		if allBytes {
			return bs
		}
		return out
	case structure:
		out := make([]interface{}, len(x))
		for j, e2 := range x {
			out[j] = i.hostArgT(nil, e2)
		}
		return out
	case *value:
		if x == nil {
			return nil
		}
		if b, ok := (*x).(*bigv); ok {
			if b.c != nil {
				return b.c
			}
			return opaqueArg{"<symbolic-big>"}
		}
		return opaqueArg{fmt.Sprintf("%p", x)}
	case iface:
		return i.hostArg(x)
	}
	return opaqueArg{fmt.Sprintf("<%T>", v)}
}

func init() {
	_ = os.Stderr
	_ = strings.Contains
}

// ---------------- parameter table ----------------
type paramVal struct {
	t types.Type
	v value
}

func init() {
	regSimple(rtPkg+".Native", func(fr *frame, args []value) value { return false })
	regSimple(rtPkg+".Param", func(fr *frame, args []value) value {
		k := mustString(args[0], "Param key")
		x := args[1].(iface)
		fr.i.params[k] = paramVal{x.t, x.v}
		return nil
	})
	SS := "(github.com/pokt-network/pocket-core/types.Subspace)."
	keyOf := func(v value) string {
		bs := v.([]value)
		raw := make([]byte, len(bs))
		for k, b := range bs {
			c, ok := b.(uint8)
			if !ok {
				unsupported("symbolic parameter key")
			}
			raw[k] = c
		}
		return string(raw)
	}
	get := func(fr *frame, args []value, must bool) value {
		i := fr.i
		k := keyOf(args[2])
		i.stub("param store: Subspace.Get/Set read and write a harness-provided table (one value per key)")
		pv, ok := i.params[k]
		if tag := i.ctxTag(args[1]); tag != "" {
			if tv, tok := i.params[tag+"|"+k]; tok {
				pv, ok = tv, true
			}
		}
		if !ok {
			if must {
				unsupported("parameter %q not provided by the harness", k)
			}
			return nil
		}
		p := pv.(paramVal)
		dst := args[3].(iface)
		pt, isPtr := dst.t.Underlying().(*types.Pointer)
		if !isPtr {
			unsupported("Subspace.Get into non-pointer %s", dst.t)
		}
		if !types.Identical(pt.Elem(), p.t) {
			if !types.Identical(pt.Elem().Underlying(), p.t.Underlying()) {
				unsupported("parameter %q: harness provided %s, code reads %s", k, p.t, pt.Elem())
			}
		}
		store(pt.Elem(), dst.v.(*value), copyVal(pt.Elem(), p.v))
		return nil
	}
	regSimple(SS+"Get", func(fr *frame, args []value) value { return get(fr, args, true) })
	regSimple(SS+"GetIfExists", func(fr *frame, args []value) value { return get(fr, args, false) })
	regSimple(SS+"Has", func(fr *frame, args []value) value {
		_, ok := fr.i.params[keyOf(args[2])]
		return tuple{ok, iface{}}
	})
	regSimple(SS+"Set", func(fr *frame, args []value) value {
		x := args[3].(iface)
		fr.i.params[keyOf(args[2])] = paramVal{x.t, copyVal(x.t, x.v)}
		return nil
	})
}

// copyVal deep-copies structs/arrays (value semantics); reference types are shared.
func copyVal(t types.Type, v value) value {
	cell := v
	return load(t, &cell)
}
