package main

import (
	"crypto/sha256"

	"golang.org/x/crypto/blake2b"
	"golang.org/x/crypto/sha3"
)

func hostHash(kind string, in []byte) []byte {
	switch kind {
	case "sha3-256":
		h := sha3.Sum256(in)
		return h[:]
	case "sha256":
		h := sha256.Sum256(in)
		return h[:]
	case "blake2b-256":
		h := blake2b.Sum256(in)
		return h[:]
	}
	panic("hostHash: " + kind)
}
