package main

// Symbolic counterparts of binop/unop/conv/equals. Concrete operands fall through to the
// original interpreter code (binopC/unopC/convC).

import (
	"fmt"
	"go/token"
	"go/types"
	"math/big"

	"golang.org/x/tools/go/ssa"
)

// symstr is a string with at least one symbolic byte (elements: uint8 or *Term of sort BV8).
type symstr []value

func basicInfo(t types.Type) (w int, signed bool, ok bool) {
	b, isb := t.Underlying().(*types.Basic)
	if !isb {
		return 0, false, false
	}
	switch b.Kind() {
	case types.Int, types.Int64, types.UntypedInt:
		return 64, true, true
	case types.Int8:
		return 8, true, true
	case types.Int16:
		return 16, true, true
	case types.Int32, types.UntypedRune:
		return 32, true, true
	case types.Uint, types.Uint64, types.Uintptr:
		return 64, false, true
	case types.Uint8:
		return 8, false, true
	case types.Uint16:
		return 16, false, true
	case types.Uint32:
		return 32, false, true
	}
	return 0, false, false
}

func typeRange(w int, signed bool) (lo, hi *big.Int) {
	if signed {
		h := new(big.Int).Lsh(big.NewInt(1), uint(w-1))
		return new(big.Int).Neg(h), new(big.Int).Sub(h, big.NewInt(1))
	}
	return big.NewInt(0), mask(w)
}

func isSym(x value) bool {
	switch x.(type) {
	case *Term, symstr:
		return true
	}
	return false
}

// concreteBig returns the mathematical value of a concrete Go integer value.
func concreteBig(x value) (*big.Int, bool) {
	switch x := x.(type) {
	case int:
		return big.NewInt(int64(x)), true
	case int8:
		return big.NewInt(int64(x)), true
	case int16:
		return big.NewInt(int64(x)), true
	case int32:
		return big.NewInt(int64(x)), true
	case int64:
		return big.NewInt(x), true
	case uint:
		return new(big.Int).SetUint64(uint64(x)), true
	case uint8:
		return big.NewInt(int64(x)), true
	case uint16:
		return big.NewInt(int64(x)), true
	case uint32:
		return big.NewInt(int64(x)), true
	case uint64:
		return new(big.Int).SetUint64(x), true
	case uintptr:
		return new(big.Int).SetUint64(uint64(x)), true
	}
	return nil, false
}

// fromBig builds the concrete Go value of basic integer type t with mathematical value v
// (wrapped to the type's width).
func fromBig(t types.Type, v *big.Int) value {
	w, signed, _ := basicInfo(t)
	u := new(big.Int).And(v, mask(w))
	if signed {
		u = sval(u, w)
	}
	b := t.Underlying().(*types.Basic)
	switch b.Kind() {
	case types.Int, types.UntypedInt:
		return int(u.Int64())
	case types.Int8:
		return int8(u.Int64())
	case types.Int16:
		return int16(u.Int64())
	case types.Int32, types.UntypedRune:
		return int32(u.Int64())
	case types.Int64:
		return u.Int64()
	case types.Uint:
		return uint(u.Uint64())
	case types.Uint8:
		return uint8(u.Uint64())
	case types.Uint16:
		return uint16(u.Uint64())
	case types.Uint32:
		return uint32(u.Uint64())
	case types.Uint64:
		return u.Uint64()
	case types.Uintptr:
		return uintptr(u.Uint64())
	}
	panic("fromBig: " + t.String())
}

// bvOf returns x (concrete or symbolic, of integer type t) as a BV term of t's width.
func (i *interpreter) bvOf(t types.Type, x value) *Term {
	w, signed, ok := basicInfo(t)
	if !ok {
		panic(fmt.Sprintf("bvOf: non-integer type %s (%T)", t, x))
	}
	if tm, ok := x.(*Term); ok {
		if tm.sort.K == SInt {
			return i.tf.Int2Bv(tm, w)
		}
		if tm.sort.W != w {
			panic(fmt.Sprintf("bvOf: width mismatch %d vs %s", tm.sort.W, t))
		}
		return tm
	}
	c, ok := concreteBig(x)
	if !ok {
		panic(fmt.Sprintf("bvOf: %T", x))
	}
	_ = signed
	return i.tf.Const(bvSort(w), c)
}

// intOf returns x (integer type t) as an Int-sorted term with range metadata.
func (i *interpreter) intOf(t types.Type, x value) *Term {
	w, signed, ok := basicInfo(t)
	if !ok {
		panic(fmt.Sprintf("intOf: non-integer type %s", t))
	}
	if tm, ok := x.(*Term); ok {
		if tm.sort.K == SInt {
			return tm
		}
		if signed {
			return i.tf.Bv2IntSigned(tm)
		}
		return i.tf.Bv2Int(tm)
	}
	c, ok := concreteBig(x)
	if !ok {
		panic(fmt.Sprintf("intOf: %T", x))
	}
	_ = w
	return i.tf.IntB(c)
}

// wrapInt brings an Int-sorted result back into the range of Go type (w,signed).
func (i *interpreter) wrapInt(r *Term, w int, signed bool) *Term {
	f := i.tf
	lo, hi := typeRange(w, signed)
	rlo, rhi := irange(r)
	if rlo != nil && rlo.Cmp(lo) >= 0 && rhi.Cmp(hi) <= 0 {
		return r
	}
	if i.provenIn(r, lo, hi) {
		return r
	}
	two := new(big.Int).Lsh(big.NewInt(1), uint(w))
	var out *Term
	if signed {
		half := new(big.Int).Lsh(big.NewInt(1), uint(w-1))
		out = f.IBin(OISub, f.IBin(OIMod, f.IBin(OIAdd, r, f.IntB(half)), f.IntB(two)), f.IntB(half))
	} else {
		out = f.IBin(OIMod, r, f.IntB(two))
	}
	out.lo, out.hi = lo, hi
	return out
}

func nonneg(t *Term) bool {
	lo, _ := irange(t)
	return lo != nil && lo.Sign() >= 0
}
func positive(t *Term) bool {
	lo, _ := irange(t)
	return lo != nil && lo.Sign() > 0
}

// tdiv/trem: Go's truncated division on Int terms (b != 0 assumed checked by caller).
func (i *interpreter) tdiv(a, b *Term) *Term {
	f := i.tf
	if (nonneg(a) || i.provenNonneg(a)) && (positive(b) || i.provenPositive(b)) {
		return f.IBin(OIDiv, a, b)
	}
	q := f.IBin(OIDiv, f.IAbs(a), f.IAbs(b))
	z := f.Int(0)
	same := f.Eq(f.ICmp(OILt, a, z), f.ICmp(OILt, b, z))
	return f.Ite(same, q, f.INeg(q))
}

func (i *interpreter) trem(a, b *Term) *Term {
	f := i.tf
	if (nonneg(a) || i.provenNonneg(a)) && (positive(b) || i.provenPositive(b)) {
		return f.IBin(OIMod, a, b)
	}
	r := f.IBin(OIMod, f.IAbs(a), f.IAbs(b))
	return f.Ite(f.ICmp(OILt, a, f.Int(0)), f.INeg(r), r)
}

func (i *interpreter) divZeroCheck(zero *Term) {
	if i.branch(zero) {
		panic(targetPanic{iface{i.runtimeErrorString, "runtime error: integer divide by zero"}})
	}
}

// binop dispatches on symbolic operands.
func (i *interpreter) binop(op token.Token, t types.Type, x, y value) value {
	if !isSym(x) && !isSym(y) {
		if op == token.EQL || op == token.NEQ {
			r := i.eqv(t, x, y)
			if op == token.NEQ {
				return i.notv(r)
			}
			return r
		}
		return binopC(op, t, x, y)
	}
	f := i.tf
	// strings
	if b, ok := t.Underlying().(*types.Basic); ok && b.Info()&types.IsString != 0 {
		xs, ys := strBytes(x), strBytes(y)
		switch op {
		case token.ADD:
			return normStr(append(append(symstr{}, xs...), ys...))
		case token.EQL, token.NEQ, token.LSS, token.LEQ, token.GTR, token.GEQ:
			lt, eq := i.lexCmp(xs, ys)
			var r *Term
			switch op {
			case token.EQL:
				r = eq
			case token.NEQ:
				r = f.Not(eq)
			case token.LSS:
				r = lt
			case token.LEQ:
				r = f.Or(lt, eq)
			case token.GTR:
				r = f.Not(f.Or(lt, eq))
			case token.GEQ:
				r = f.Not(lt)
			}
			return boolVal(r)
		}
		unsupported("string op %s on symbolic string", op)
	}
	// booleans
	if b, ok := t.Underlying().(*types.Basic); ok && b.Info()&types.IsBoolean != 0 {
		xt, yt := i.boolTerm(x), i.boolTerm(y)
		switch op {
		case token.EQL:
			return boolVal(f.Eq(xt, yt))
		case token.NEQ:
			return boolVal(f.Not(f.Eq(xt, yt)))
		case token.AND:
			return boolVal(f.And(xt, yt))
		case token.OR:
			return boolVal(f.Or(xt, yt))
		}
		unsupported("bool op %s", op)
	}
	w, signed, ok := basicInfo(t)
	if !ok {
		// comparison of composite values
		if op == token.EQL || op == token.NEQ {
			r := i.eqv(t, x, y)
			if op == token.NEQ {
				return i.notv(r)
			}
			return r
		}
		unsupported("symbolic binop %s on %s", op, t)
	}
	xt, xs := x.(*Term)
	yt, ys := y.(*Term)
	useInt := (xs && xt.sort.K == SInt) || (ys && yt.sort.K == SInt)
	if op == token.SHL || op == token.SHR {
		return i.shift(op, t, x, y, w, signed)
	}
	if useInt {
		a, b := i.intOf(t, x), i.intOf(t, y)
		switch op {
		case token.ADD:
			return i.wrapInt(f.IBin(OIAdd, a, b), w, signed)
		case token.SUB:
			return i.wrapInt(f.IBin(OISub, a, b), w, signed)
		case token.MUL:
			return i.wrapInt(f.IBin(OIMul, a, b), w, signed)
		case token.QUO:
			i.divZeroCheck(f.Eq(b, f.Int(0)))
			return i.wrapInt(i.tdiv(a, b), w, signed)
		case token.REM:
			i.divZeroCheck(f.Eq(b, f.Int(0)))
			r := i.trem(a, b)
			return i.wrapInt(r, w, signed)
		case token.EQL:
			return boolVal(f.Eq(a, b))
		case token.NEQ:
			return boolVal(f.Not(f.Eq(a, b)))
		case token.LSS:
			return boolVal(f.ICmp(OILt, a, b))
		case token.LEQ:
			return boolVal(f.ICmp(OILe, a, b))
		case token.GTR:
			return boolVal(f.ICmp(OILt, b, a))
		case token.GEQ:
			return boolVal(f.ICmp(OILe, b, a))
		case token.AND:
			// x & (2^k-1) on non-negative values = x mod 2^k
			if c, ok := constOf(b); ok && nonneg(a) {
				c1 := new(big.Int).Add(c, big.NewInt(1))
				if c.Sign() >= 0 && c1.BitLen()-1 == int(c1.TrailingZeroBits()) {
					return f.IBin(OIMod, a, f.IntB(c1))
				}
			}
		}
		// fall back to bit-vectors
	}
	a, b := i.bvOf(t, x), i.bvOf(t, y)
	switch op {
	case token.ADD:
		return termVal(f.BvBin(OBvAdd, a, b))
	case token.SUB:
		return termVal(f.BvBin(OBvSub, a, b))
	case token.MUL:
		return termVal(f.BvBin(OBvMul, a, b))
	case token.QUO:
		i.divZeroCheck(f.Eq(b, f.BV(w, 0)))
		if signed {
			return termVal(f.BvBin(OBvSDiv, a, b))
		}
		return termVal(f.BvBin(OBvUDiv, a, b))
	case token.REM:
		i.divZeroCheck(f.Eq(b, f.BV(w, 0)))
		if signed {
			return termVal(f.BvBin(OBvSRem, a, b))
		}
		return termVal(f.BvBin(OBvURem, a, b))
	case token.AND:
		return termVal(f.BvBin(OBvAnd, a, b))
	case token.OR:
		return termVal(f.BvBin(OBvOr, a, b))
	case token.XOR:
		return termVal(f.BvBin(OBvXor, a, b))
	case token.AND_NOT:
		return termVal(f.BvBin(OBvAnd, a, f.BvNot(b)))
	case token.EQL:
		return boolVal(f.Eq(a, b))
	case token.NEQ:
		return boolVal(f.Not(f.Eq(a, b)))
	case token.LSS, token.LEQ, token.GTR, token.GEQ:
		lt, le := OBvUlt, OBvUle
		if signed {
			lt, le = OBvSlt, OBvSle
		}
		switch op {
		case token.LSS:
			return boolVal(f.BvCmp(lt, a, b))
		case token.LEQ:
			return boolVal(f.BvCmp(le, a, b))
		case token.GTR:
			return boolVal(f.BvCmp(lt, b, a))
		default:
			return boolVal(f.BvCmp(le, b, a))
		}
	}
	unsupported("symbolic binop %s on %s", op, t)
	return nil
}

func constOf(t *Term) (*big.Int, bool) {
	if t.isConst() {
		return t.c, true
	}
	return nil, false
}

// shift implements x << y and x >> y; y has its own (unsigned or signed) type, already checked non-negative by SSA.
func (i *interpreter) shift(op token.Token, t types.Type, x, y value, w int, signed bool) value {
	f := i.tf
	// shift count as uint64
	var cnt *Term
	if yt, ok := y.(*Term); ok {
		if yt.sort.K == SInt {
			cnt = f.Int2Bv(yt, 64)
		} else if yt.sort.W < 64 {
			cnt = f.Zext(yt, 64)
		} else {
			cnt = yt
		}
	} else {
		cnt = f.BV(64, asUint64ish(y))
	}
	if xt, ok := x.(*Term); ok && xt.sort.K == SInt && cnt.isConst() && cnt.c.IsInt64() && cnt.c.Int64() < 128 {
		k := uint(cnt.c.Int64())
		p := f.IntB(new(big.Int).Lsh(big.NewInt(1), k))
		if op == token.SHL {
			return i.wrapInt(f.IBin(OIMul, xt, p), w, signed)
		}
		// arithmetic shift right = floor division (Euclidean for positive divisor)
		return i.wrapInt(f.IBin(OIDiv, xt, p), w, signed)
	}
	a := i.bvOf(t, x)
	// bring count to width w; counts >= w give 0 / sign fill, which SMT bvshl/bvlshr/bvashr match as long as
	// the count does not wrap when truncated
	var c *Term
	if w == 64 {
		c = cnt
	} else {
		big := f.BvCmp(OBvUle, f.BV(64, uint64(w)), cnt)
		c = f.Ite(big, f.BV(w, uint64(w)), f.Extract(cnt, w-1, 0))
	}
	switch {
	case op == token.SHL:
		return termVal(f.BvBin(OBvShl, a, c))
	case signed:
		return termVal(f.BvBin(OBvAshr, a, c))
	default:
		return termVal(f.BvBin(OBvLshr, a, c))
	}
}

func asUint64ish(x value) uint64 {
	c, ok := concreteBig(x)
	if !ok {
		panic(fmt.Sprintf("shift count %T", x))
	}
	if c.Sign() < 0 {
		panic(targetPanic{"runtime error: negative shift amount"})
	}
	if !c.IsUint64() {
		return ^uint64(0)
	}
	return c.Uint64()
}

// termVal returns the Go constant if t folded to a constant, else t. (Needs the static type to
// produce the right Go type, so callers go through fixType.)
func termVal(t *Term) value { return t }

func boolVal(t *Term) value {
	if t.isConst() {
		return t.isTrue()
	}
	return t
}

func (i *interpreter) boolTerm(x value) *Term {
	switch x := x.(type) {
	case bool:
		return i.tf.Bool(x)
	case *Term:
		return x
	}
	panic(fmt.Sprintf("boolTerm: %T", x))
}

func (i *interpreter) notv(x value) value {
	switch x := x.(type) {
	case bool:
		return !x
	case *Term:
		return boolVal(i.tf.Not(x))
	}
	panic(fmt.Sprintf("notv: %T", x))
}

// fixType turns constant terms back into concrete Go values of static type t.
func fixType(t types.Type, v value) value {
	tm, ok := v.(*Term)
	if !ok || !tm.isConst() {
		return v
	}
	if tm.sort.K == SBool {
		return tm.isTrue()
	}
	if _, _, ok := basicInfo(t); ok {
		return fromBig(t, tm.c)
	}
	return v
}

func (i *interpreter) unop(instr *ssa.UnOp, x value) value {
	tm, ok := x.(*Term)
	if !ok {
		return unopC(instr, x)
	}
	f := i.tf
	switch instr.Op {
	case token.NOT:
		return boolVal(f.Not(tm))
	case token.SUB:
		w, signed, _ := basicInfo(instr.X.Type())
		if tm.sort.K == SInt {
			return i.wrapInt(f.INeg(tm), w, signed)
		}
		return f.BvNeg(tm)
	case token.XOR:
		w, _, _ := basicInfo(instr.X.Type())
		return f.BvNot(i.bvOf(instr.X.Type(), tm))
		_ = w
	}
	unsupported("symbolic unop %s", instr.Op)
	return nil
}

// strBytes views a string value as its bytes.
func strBytes(x value) []value {
	switch x := x.(type) {
	case string:
		out := make([]value, len(x))
		for k := 0; k < len(x); k++ {
			out[k] = x[k]
		}
		return out
	case symstr:
		return x
	}
	panic(fmt.Sprintf("strBytes: %T", x))
}

// normStr returns a Go string if all bytes are concrete.
func normStr(s symstr) value {
	for _, b := range s {
		if _, ok := b.(uint8); !ok {
			return s
		}
	}
	bs := make([]byte, len(s))
	for k, b := range s {
		bs[k] = b.(uint8)
	}
	return string(bs)
}

func (i *interpreter) byteTerm(b value) *Term {
	switch b := b.(type) {
	case uint8:
		return i.tf.BV(8, uint64(b))
	case *Term:
		if b.sort.K == SInt {
			return i.tf.Int2Bv(b, 8)
		}
		return b
	}
	panic(fmt.Sprintf("byteTerm: %T", b))
}

// lexCmp returns (a<b, a==b) for byte sequences of concrete lengths.
func (i *interpreter) lexCmp(a, b []value) (lt, eq *Term) {
	f := i.tf
	n := len(a)
	if len(b) < n {
		n = len(b)
	}
	lt = f.Bool(len(a) < len(b))
	eq = f.Bool(len(a) == len(b))
	k := n - 1
	for k >= 0 {
		// aligned block: consecutive bytes that are the successive extracts of one wider term on both sides
		if bl := blockLen(a, b, k); bl > 1 {
			pa, pb := blockParent(a[k]), blockParent(b[k])
			var e, l *Term
			xa, xb := intBlock(pa), intBlock(pb)
			if xa != nil && xb != nil {
				e, l = f.Eq(xa, xb), f.ICmp(OILt, xa, xb)
			} else {
				e, l = f.Eq(pa, pb), f.BvCmp(OBvUlt, pa, pb)
			}
			lt = f.Or(l, f.And(e, lt))
			eq = f.And(e, eq)
			k -= bl
			continue
		}
		// aligned block against concrete bytes: compare the block's parent with the constant
		if e, l, bl := i.blockVsConst(a, b, k); bl > 1 {
			lt = f.Or(l, f.And(e, lt))
			eq = f.And(e, eq)
			k -= bl
			continue
		}
		x, y := i.byteTerm(a[k]), i.byteTerm(b[k])
		e := f.Eq(x, y)
		l := f.BvCmp(OBvUlt, x, y)
		lt = f.Or(l, f.And(e, lt))
		eq = f.And(e, eq)
		k--
	}
	return
}

// blockLen: if a[k-bl+1..k] and b[k-bl+1..k] are both the big-endian byte decomposition of whole
// terms (extract 8j+7..8j of one parent, covering it fully), returns bl; else 0.
func blockLen(a, b []value, k int) int {
	la := blockEndingAt(a, k)
	if la <= 1 {
		return 0
	}
	lb := blockEndingAt(b, k)
	if la != lb {
		return 0
	}
	return la
}

func blockParent(v value) *Term {
	return v.(*Term).args[0]
}

func blockEndingAt(a []value, k int) int {
	t, ok := a[k].(*Term)
	if !ok || t.op != OExtract || t.y != 0 || t.x != 7 {
		return 0
	}
	p := t.args[0]
	n := p.sort.W / 8
	if p.sort.W%8 != 0 || n < 2 || k-n+1 < 0 {
		return 0
	}
	for j := 0; j < n; j++ {
		e, ok := a[k-j].(*Term)
		if !ok || e.op != OExtract || e.args[0] != p || e.y != 8*j || e.x != 8*j+7 {
			return 0
		}
	}
	return n
}

// intBlock: if p = int2bv(x) with 0 <= x < 2^w known, returns x.
func intBlock(p *Term) *Term {
	if p.op != OInt2Bv {
		return nil
	}
	x := p.args[0]
	lo, hi := irange(x)
	if lo != nil && lo.Sign() >= 0 && hi.Cmp(mask(p.sort.W)) <= 0 {
		return x
	}
	return nil
}

// eqv is equality on values of static type t, yielding bool or *Term.
func (i *interpreter) eqv(t types.Type, x, y value) value {
	f := i.tf
	switch t.Underlying().(type) {
	case *types.Map, *types.Signature, *types.Slice:
		return eqnil(t, x, y)
	}
	switch x := x.(type) {
	case *Term:
		return i.eqScalar(t, x, y)
	case symstr:
		_, eq := i.lexCmp(x, strBytes(y))
		return boolVal(eq)
	case string:
		if ys, ok := y.(symstr); ok {
			_, eq := i.lexCmp(strBytes(x), ys)
			return boolVal(eq)
		}
		return x == y.(string)
	case structure:
		ys := y.(structure)
		st := t.Underlying().(*types.Struct)
		acc := f.Bool(true)
		for k := range x {
			fld := st.Field(k)
			if fld.Name() == "_" {
				continue
			}
			acc = f.And(acc, i.boolTerm(i.eqv(fld.Type(), x[k], ys[k])))
			if acc.isFalse() {
				return false
			}
		}
		return boolVal(acc)
	case array:
		ya := y.(array)
		et := t.Underlying().(*types.Array).Elem()
		acc := f.Bool(true)
		for k := range x {
			acc = f.And(acc, i.boolTerm(i.eqv(et, x[k], ya[k])))
			if acc.isFalse() {
				return false
			}
		}
		return boolVal(acc)
	case iface:
		yi := y.(iface)
		if !sameType(x.t, yi.t) {
			return false
		}
		if x.t == nil {
			return true
		}
		return i.eqv(x.t, x.v, yi.v)
	case *bigv:
		unsupported("comparison of big.Int structs")
	}
	if _, ok := y.(*Term); ok {
		return i.eqScalar(t, y.(*Term), x)
	}
	if _, ok := y.(symstr); ok {
		return i.eqv(t, y, x)
	}
	return equals(t, x, y)
}

func (i *interpreter) eqScalar(t types.Type, x *Term, y value) value {
	f := i.tf
	if x.sort.K == SBool {
		return boolVal(f.Eq(x, i.boolTerm(y)))
	}
	yt, ysym := y.(*Term)
	if x.sort.K == SInt || (ysym && yt.sort.K == SInt) {
		return boolVal(f.Eq(i.intOf(t, x), i.intOf(t, y)))
	}
	return boolVal(f.Eq(x, i.bvOf(t, y)))
}

// conv handles conversions with symbolic operands.
func (i *interpreter) conv(tDst, tSrc types.Type, x value) value {
	f := i.tf
	switch x := x.(type) {
	case *Term:
		ws, ss, oks := basicInfo(tSrc)
		wd, sd, okd := basicInfo(tDst)
		if x.sort.K == SBool {
			return x
		}
		if !oks || !okd {
			if b, ok := tDst.Underlying().(*types.Basic); ok && b.Info()&types.IsFloat != 0 {
				unsupported("conversion of symbolic integer to float")
			}
			unsupported("symbolic conversion %s -> %s", tSrc, tDst)
		}
		if x.sort.K == SInt {
			return i.wrapInt(x, wd, sd)
		}
		switch {
		case wd == ws:
			return x
		case wd < ws:
			return f.Extract(x, wd-1, 0)
		case ss:
			return f.Sext(x, wd)
		default:
			return f.Zext(x, wd)
		}
	case symstr:
		// string -> []byte / named string
		switch ud := tDst.Underlying().(type) {
		case *types.Slice:
			if b, ok := ud.Elem().Underlying().(*types.Basic); ok && b.Kind() == types.Uint8 {
				out := make([]value, len(x))
				copy(out, x)
				return out
			}
			unsupported("conversion of symbolic string to %s", tDst)
		case *types.Basic:
			if ud.Info()&types.IsString != 0 {
				return x
			}
		}
		unsupported("conversion of symbolic string to %s", tDst)
	case []value:
		// []byte -> string with symbolic bytes
		if ud, ok := tDst.Underlying().(*types.Basic); ok && ud.Info()&types.IsString != 0 {
			if es, ok := tSrc.Underlying().(*types.Slice); ok {
				if b, ok := es.Elem().Underlying().(*types.Basic); ok && b.Kind() == types.Uint8 {
					for _, e := range x {
						if _, sym := e.(*Term); sym {
							out := make(symstr, len(x))
							copy(out, x)
							return out
						}
					}
				}
			}
		}
	}
	return convC(tDst, tSrc, x)
}
