package main

// Initialiser-time functions that only build node-local plumbing (event-bus queries, metrics):
// skipped — the globals they would set are poisoned, so any use is reported as unsupported.
func init() {
	for _, n := range []string{
		"github.com/tendermint/tendermint/types.QueryForEvent",
		"github.com/tendermint/tendermint/libs/pubsub/query.MustParse",
		"github.com/prometheus/client_golang/prometheus.MustRegister",
	} {
		name := n
		regSimple(n, func(fr *frame, args []value) value {
			unsupported("%s is not executed (node-local plumbing)", name)
			return nil
		})
	}
}

// Service metrics (prometheus counters of the relay-serving node): bookkeeping with no effect on
// evidence or consensus state; calls are no-ops.
func init() {
	for _, m := range []string{"AddSessionFor", "AddRelayFor", "AddErrorFor", "AddRelayTimingFor", "AddChallengeFor", "AddUPOKTEarnedFor"} {
		regSimple("(*github.com/pokt-network/pocket-core/x/pocketcore/types.ServiceMetrics)."+m, func(fr *frame, args []value) value {
			fr.i.stub("service metrics are not recorded")
			return nil
		})
	}
}

// gogo/protobuf proto.Clone (reflection-driven deep copy): modelled as a copy of the pointed-to
// struct value (nested slices keep their backing arrays; the cloned messages — block headers in
// Context.BlockHeader — are not mutated afterwards by the code under test).
func init() {
	regSimple("github.com/gogo/protobuf/proto.Clone", func(fr *frame, args []value) value {
		x := args[0].(iface)
		p, ok := x.v.(*value)
		if !ok || p == nil {
			return x
		}
		fr.i.stub("proto.Clone modelled as a one-level struct copy")
		cell := new(value)
		*cell = copyVal(mustDeref(x.t), *p)
		return iface{t: x.t, v: cell}
	})
}
