package main

import (
	"bufio"
	"bytes"
	"encoding/json"
	"fmt"
	"math/rand"
	"os"
	"os/exec"
	"path/filepath"
	"regexp"
	"sort"
	"strings"
	"time"

	"golang.org/x/tools/go/ssa"
)

type nativeTape struct {
	Harness string      `json:"harness"`
	Label   string      `json:"label,omitempty"`
	Tier    int         `json:"tier"`
	Known   []string    `json:"known,omitempty"`
	Entries []tapeEntry `json:"tape"`
	// bookkeeping (not read by verifrt)
	Property  string   `json:"property,omitempty"`
	Decisions string   `json:"decisions,omitempty"`
	Detail    string   `json:"detail,omitempty"`
	Dir       string   `json:"dir,omitempty"`
	Expect    []string `json:"expect_observes,omitempty"`
	KnownID   string   `json:"known_id,omitempty"`
}

type nativeOutcome struct {
	failed   []string
	known    []string
	panicMsg string
	assumeF  bool
	mismatch bool
	exhaust  bool
	observes []string
	ran      bool
}

// runNative executes tapes (all for harnesses living in package dir) against the natively
// compiled code with `go test -overlay`.
func runNative(l *loaded, dir string, tapes []nativeTape) ([]nativeOutcome, string, error) {
	tmp, err := os.MkdirTemp("", "gosym-native-")
	if err != nil {
		return nil, "", err
	}
	defer os.RemoveAll(tmp)
	repl := map[string]string{}
	var pkgName string
	var names []string
	for _, f := range l.files {
		repl[f.dst] = f.src
	}
	for _, h := range l.harnesses {
		d := filepath.Dir(l.prog.Fset.Position(h.Pos()).Filename)
		if d == filepath.Join(*flagRepo, dir) {
			names = append(names, h.Name())
			pkgName = h.Pkg.Pkg.Name()
		}
	}
	var tb strings.Builder
	fmt.Fprintf(&tb, "package %s\n\nimport (\n\t\"os\"\n\t\"testing\"\n\tverifrt \"github.com/pokt-network/pocket-core/verifrt\"\n)\n\n", pkgName)
	tb.WriteString("func TestVerifReplay(t *testing.T) {\n\tverifrt.SetT(t)\n\trc := verifrt.RunNative(os.Getenv(\"VERIF_TAPE\"), map[string]func(){\n")
	for _, n := range names {
		fmt.Fprintf(&tb, "\t\t%q: %s,\n", n, n)
	}
	tb.WriteString("\t})\n\tif rc != 0 {\n\t\tt.Fatal(\"replay error\")\n\t}\n}\n")
	testSrc := filepath.Join(tmp, "zz_verif_replay_test.go")
	os.WriteFile(testSrc, []byte(tb.String()), 0o644)
	repl[filepath.Join(*flagRepo, dir, "zz_verif_replay_test.go")] = testSrc
	ov, _ := json.Marshal(map[string]interface{}{"Replace": repl})
	ovPath := filepath.Join(tmp, "overlay.json")
	os.WriteFile(ovPath, ov, 0o644)
	tapePath := filepath.Join(tmp, "tapes.json")
	tj, _ := json.Marshal(tapes)
	os.WriteFile(tapePath, tj, 0o644)
	cmd := exec.Command("go", "test", "-tags", "verifnative", "-vet=off", "-count=1", "-overlay", ovPath, "-run", "^TestVerifReplay$", "-v", "-timeout", "20m", "./"+dir)
	cmd.Dir = *flagRepo
	cmd.Env = append(os.Environ(), "GOFLAGS=-mod=mod", "GOPROXY=off", "GOSUMDB=off", "GOTOOLCHAIN=local", "VERIF_TAPE="+tapePath)
	var buf bytes.Buffer
	cmd.Stdout = &buf
	cmd.Stderr = &buf
	runErr := cmd.Run()
	outs := make([]nativeOutcome, len(tapes))
	cur := -1
	sc := bufio.NewScanner(bytes.NewReader(buf.Bytes()))
	sc.Buffer(make([]byte, 1<<20), 1<<24)
	for sc.Scan() {
		line := strings.TrimSpace(sc.Text())
		switch {
		case strings.HasPrefix(line, "VERIF-BEGIN "):
			fmt.Sscanf(line, "VERIF-BEGIN %d", &cur)
			if cur >= 0 && cur < len(outs) {
				outs[cur].ran = true
			}
		case cur < 0 || cur >= len(outs):
		case strings.HasPrefix(line, "VERIF-ASSERT-FAILED "):
			outs[cur].failed = append(outs[cur].failed, strings.TrimPrefix(line, "VERIF-ASSERT-FAILED "))
		case strings.HasPrefix(line, "VERIF-KNOWN "):
			outs[cur].known = append(outs[cur].known, strings.TrimPrefix(line, "VERIF-KNOWN "))
		case strings.HasPrefix(line, "VERIF-PANIC "):
			outs[cur].panicMsg = strings.TrimPrefix(line, "VERIF-PANIC ")
		case strings.HasPrefix(line, "VERIF-ASSUME-FAILED"):
			outs[cur].assumeF = true
		case strings.HasPrefix(line, "VERIF-TAPE-MISMATCH"):
			outs[cur].mismatch = true
		case strings.HasPrefix(line, "VERIF-TAPE-EXHAUSTED"):
			outs[cur].exhaust = true
		case strings.HasPrefix(line, "VERIF-OBSERVE "):
			outs[cur].observes = append(outs[cur].observes, strings.TrimPrefix(line, "VERIF-OBSERVE "))
		}
	}
	if runErr != nil {
		// a failing test binary is fine as long as the protocol lines are there; a build failure is not
		anyRan := false
		for _, o := range outs {
			anyRan = anyRan || o.ran
		}
		if !anyRan {
			return outs, buf.String(), fmt.Errorf("native run failed: %v", runErr)
		}
	}
	return outs, buf.String(), nil
}

func harnessDir(l *loaded, name string) string {
	for _, h := range l.harnesses {
		if h.Name() == name {
			d := filepath.Dir(l.prog.Fset.Position(h.Pos()).Filename)
			rel, _ := filepath.Rel(*flagRepo, d)
			return rel
		}
	}
	return ""
}

func knownList(known map[string]bool) []string {
	var out []string
	for k := range known {
		out = append(out, k)
	}
	sort.Strings(out)
	return out
}

func runProperty(prop, tier string) int {
	t0 := time.Now()
	seed := int64(atoiDef(os.Getenv("VERIF_SEED"), 0))
	known, knownEntries := loadKnown()
	l, err := loadProgram(prop)
	evPath := *flagEvid
	if evPath == "" {
		evPath = filepath.Join(*flagVerif, "evidence", prop+".json")
	}
	if err != nil {
		fmt.Printf("INCONCLUSIVE property=%s reason=load: %v\n", prop, err)
		writeEvidence(evPath, prop, tier, seed, nil, nil, time.Since(t0), []string{"load failed: " + err.Error()}, 0, nil)
		return 2
	}
	if len(l.harnesses) == 0 {
		fmt.Printf("INCONCLUSIVE property=%s reason=no harness functions found\n", prop)
		return 2
	}
	fmt.Fprintf(os.Stderr, "loaded %d packages, %d harnesses in %.1fs\n", len(l.prog.AllPackages()), len(l.harnesses), l.loadTime.Seconds())
	var only *regexp.Regexp
	if *flagOnly != "" {
		only = regexp.MustCompile(*flagOnly)
	}
	base := &Config{Tier: tierNum(tier), Unwind: 64, MaxSteps: 50_000_000, MaxDepth: 400, MaxDecisions: 4000, MaxSymIndex: 64,
		MaxSymLen: 16, MaxPaths: 0, WallS: 0, Workers: *flagWorkers, QueryTimeoutS: 30, Solver: *flagSolver, Known: known,
		Verbose: *flagVerbose, Seed: seed}
	if tier == "thorough" {
		base.QueryTimeoutS = 60
	}
	sh := newShared(l.prog, base)
	if *flagTrace {
		sh.mode |= EnableTracing
	}
	var results []*harnessResult
	var inconclusive []string
	reachedInFile := map[string]bool{} // "<file>|<label>" reached by some harness of that file
	ranInFile := map[string]int{}
	for _, h := range l.harnesses {
		if only != nil && !only.MatchString(h.Name()) {
			continue
		}
		cfg := *base
		hc := l.configs[h.Name()]
		if t := hc["tier"]; t == "thorough" && tier != "thorough" {
			continue
		}
		cfg.Unwind = atoiDef(hc["unwind"], cfg.Unwind)
		if r := hc["real"]; r != "" { // real=<fn>;<fn>: run the real bodies instead of the intrinsics
			cfg.RealFns = map[string]bool{}
			for _, fn := range strings.Split(r, ";") {
				cfg.RealFns[fn] = true
			}
		}
		if c := hc["cut"]; c != "" { // cut=<function suffix>:<iterations>
			if fn, n, ok := strings.Cut(c, ":"); ok {
				cfg.CutFn, cfg.CutN = fn, atoiDef(n, 8)
			}
		}
		cfg.MaxPaths = atoiDef(hc["maxpaths"], cfg.MaxPaths)
		cfg.MaxDecisions = atoiDef(hc["maxdecisions"], cfg.MaxDecisions)
		cfg.MaxSymLen = atoiDef(hc["maxsymlen"], cfg.MaxSymLen)
		cfg.QueryTimeoutS = atoiDef(hc["qtimeout"], cfg.QueryTimeoutS)
		cfg.ExpectPanics = hc["panics"] == "expected"
		if w := hc["workers"]; w != "" {
			cfg.Workers = atoiDef(w, cfg.Workers)
		}
		sh.cfg = &cfg
		r := sh.explore(h, &cfg)
		results = append(results, r)
		fmt.Fprintf(os.Stderr, "%s: paths=%d infeasible=%d oblig=%v viol=%d aborted=%d queries=%d solver=%.1fs wall=%.1fs\n",
			r.Name, r.Paths, r.Infeasible, r.Oblig, len(r.Violations), len(r.Aborted), r.Solver.Queries, r.Solver.Time.Seconds(), r.Wall.Seconds())
		for reason, n := range r.Aborted {
			inconclusive = append(inconclusive, fmt.Sprintf("%s: %s (x%d)", r.Name, reason, n))
		}
		if r.Capped != "" {
			inconclusive = append(inconclusive, fmt.Sprintf("%s: %s", r.Name, r.Capped))
		}
		if r.Oblig["unknown"] > 0 {
			inconclusive = append(inconclusive, fmt.Sprintf("%s: %d obligations unknown", r.Name, r.Oblig["unknown"]))
		}
		// vacuity: every label in the harness file that belongs to this harness must be reached.
		file := l.prog.Fset.Position(h.Pos()).Filename
		own := map[string]bool{}
		for _, lab := range l.fnLabels[file+"|"+r.Name] {
			own[lab] = true
		}
		for lab := range r.Reached {
			reachedInFile[file+"|"+lab] = true
		}
		ranInFile[file]++
		for _, lab := range l.labels[file] {
			if !own[lab] && !strings.HasPrefix(lab, r.Name+":") && !labelBelongs(l, file, lab, r.Name) {
				continue
			}
			if !r.Reached[lab] {
				inconclusive = append(inconclusive, fmt.Sprintf("%s: vacuous: label %q never reached on a feasible path", r.Name, lab))
			}
		}
		if r.Paths == 0 {
			inconclusive = append(inconclusive, fmt.Sprintf("%s: no feasible completed path", r.Name))
		}
	}

	// vacuity of labels in helper functions (shared by the harnesses of a file): some harness of
	// the file must reach each of them — checked when every harness of the file was run.
	for key, labs := range l.fnLabels {
		file, fname, _ := strings.Cut(key, "|")
		if strings.HasPrefix(fname, "Verif") {
			continue
		}
		total := 0
		for _, h := range l.harnesses {
			if l.prog.Fset.Position(h.Pos()).Filename == file {
				total++
			}
		}
		if total == 0 || ranInFile[file] != total {
			continue
		}
		for _, lab := range labs {
			if !reachedInFile[file+"|"+lab] {
				inconclusive = append(inconclusive, fmt.Sprintf("%s: vacuous: label %q (in helper %s) never reached on a feasible path", filepath.Base(file), lab, fname))
			}
		}
	}

	// ---- violations: classify known / new, replay natively ----
	type vrec struct {
		v       violation
		file    string
		native  string
		outcome nativeOutcome
	}
	var news, knowns []vrec
	seen := map[string]bool{}
	for _, r := range results {
		for _, v := range r.Violations {
			key := v.Harness + "|" + v.Label + "|" + v.Known
			if seen[key] {
				continue
			}
			seen[key] = true
			if v.Known != "" {
				knowns = append(knowns, vrec{v: v})
			} else {
				news = append(news, vrec{v: v})
			}
		}
	}
	os.MkdirAll(filepath.Join(*flagVerif, "replays"), 0o755)
	mkTape := func(v violation) nativeTape {
		return nativeTape{Harness: v.Harness, Label: v.Label, Tier: base.Tier, Known: knownList(known), Entries: v.Tape,
			Property: prop, Decisions: decString(v.Decisions), Detail: v.Detail, Dir: harnessDir(l, v.Harness), KnownID: v.Known}
	}
	// witnesses for translator validation
	rng := rand.New(rand.NewSource(seed))
	type wrec struct {
		tape nativeTape
		s    *pathSample
	}
	byDir := map[string][]wrec{}
	nWit := 6
	if tier == "thorough" {
		nWit = 24
	}
	for _, r := range results {
		var cands []*pathSample
		for k := range r.Samples {
			if r.Samples[k].tapeOK {
				cands = append(cands, &r.Samples[k])
			}
		}
		rng.Shuffle(len(cands), func(a, b int) { cands[a], cands[b] = cands[b], cands[a] })
		if len(cands) > nWit {
			cands = cands[:nWit]
		}
		for _, s := range cands {
			d := harnessDir(l, r.Name)
			if l.configs[r.Name]["native"] == "no" {
				continue
			}
			byDir[d] = append(byDir[d], wrec{tape: nativeTape{Harness: s.Harness, Tier: base.Tier, Known: knownList(known), Entries: s.tape, Expect: s.observes}, s: s})
		}
	}
	validated := 0
	if !*flagNoNat {
		// group violation tapes and witness tapes per package dir: one go test run per dir
		type slot struct {
			isViol bool
			idx    int
			known  bool
		}
		dirTapes := map[string][]nativeTape{}
		dirSlots := map[string][]slot{}
		for k := range news {
			d := harnessDir(l, news[k].v.Harness)
			dirTapes[d] = append(dirTapes[d], mkTape(news[k].v))
			dirSlots[d] = append(dirSlots[d], slot{true, k, false})
		}
		for k := range knowns {
			d := harnessDir(l, knowns[k].v.Harness)
			dirTapes[d] = append(dirTapes[d], mkTape(knowns[k].v))
			dirSlots[d] = append(dirSlots[d], slot{true, k, true})
		}
		for d, ws := range byDir {
			for k := range ws {
				dirTapes[d] = append(dirTapes[d], ws[k].tape)
				dirSlots[d] = append(dirSlots[d], slot{false, k, false})
			}
		}
		for d, tapes := range dirTapes {
			outs, log, err := runNative(l, d, tapes)
			if err != nil {
				inconclusive = append(inconclusive, fmt.Sprintf("native replay in %s failed: %v", d, err))
				if *flagVerbose {
					fmt.Fprintln(os.Stderr, log)
				} else {
					tail := log
					if len(tail) > 1500 {
						tail = tail[len(tail)-1500:]
					}
					fmt.Fprintln(os.Stderr, tail)
				}
				continue
			}
			for k, o := range outs {
				sl := dirSlots[d][k]
				if sl.isViol {
					var rec *vrec
					if sl.known {
						rec = &knowns[sl.idx]
					} else {
						rec = &news[sl.idx]
					}
					rec.outcome = o
					reproduced := false
					if rec.v.Panic {
						reproduced = o.panicMsg != ""
					} else {
						for _, f := range o.failed {
							if f == rec.v.Label {
								reproduced = true
							}
						}
						for _, f := range o.known {
							if strings.HasSuffix(f, " "+rec.v.Label) {
								reproduced = true
							}
						}
					}
					if reproduced {
						rec.native = "reproduced"
					} else {
						rec.native = fmt.Sprintf("not-reproduced(failed=%v panic=%q assume=%v mismatch=%v)", o.failed, o.panicMsg, o.assumeF, o.mismatch)
						if l.configs[rec.v.Harness]["native"] == "no" {
							rec.native = "model-level (harness has no native twin)"
						}
					}
				} else {
					w := byDir[d][sl.idx]
					ok := len(o.failed) == 0 && o.panicMsg == "" && !o.assumeF && !o.mismatch && o.ran
					if ok && len(w.tape.Expect) == len(o.observes) {
						for j := range o.observes {
							if o.observes[j] != w.tape.Expect[j] {
								ok = false
							}
						}
					} else {
						ok = false
					}
					if ok {
						validated++
					} else if o.assumeF && l.configs[w.tape.Harness]["idealhash"] == "yes" && len(o.failed) == 0 && o.panicMsg == "" {
						// the solver's interpretation of the ideal hash differs from the real hash, so the
						// native run leaves the path at an assumption over hash values: witness not applicable
					} else {
						inconclusive = append(inconclusive, fmt.Sprintf("%s: path witness %s disagrees with native run (engine=%v native=%v failed=%v panic=%q assume=%v mismatch=%v)",
							w.tape.Harness, w.s.Decisions, w.tape.Expect, o.observes, o.failed, o.panicMsg, o.assumeF, o.mismatch))
					}
				}
			}
		}
	}

	rc := 0
	nviol := 0
	// known findings
	printedKnown := map[string]bool{}
	for _, k := range knowns {
		if printedKnown[k.v.Known] {
			continue
		}
		printedKnown[k.v.Known] = true
		what := k.v.Label
		for _, e := range knownEntries {
			if e.ID == k.v.Known {
				what = e.WhatFails
			}
		}
		fmt.Printf("KNOWN-FINDING: property=%s %s [%s; native: %s]\n", prop, what, k.v.Known, k.native)
	}
	for n, v := range news {
		modelLevel := l.configs[v.v.Harness]["native"] == "no" || (l.configs[v.v.Harness]["idealhash"] == "yes" && v.native != "reproduced")
		path := filepath.Join(*flagVerif, "replays", fmt.Sprintf("%s-%d.json", prop, n))
		t := mkTape(v.v)
		data, _ := json.MarshalIndent(t, "", " ")
		os.WriteFile(path, data, 0o644)
		news[n].file = path
		if *flagNoNat || modelLevel || v.native == "reproduced" {
			nviol++
			tag := ""
			if modelLevel || *flagNoNat {
				tag = " (model-level: not replayed natively)"
			}
			fmt.Printf("VIOLATION property=%s replay=%s harness=%s label=%s%s %s\n", prop, path, v.v.Harness, v.v.Label, tag, v.v.Detail)
		} else {
			inconclusive = append(inconclusive, fmt.Sprintf("%s: counterexample for %q did not reproduce natively: %s (tape %s)", v.v.Harness, v.v.Label, v.native, path))
		}
	}
	if nviol > 0 {
		rc = 1
	} else if len(inconclusive) > 0 {
		rc = 2
		for _, m := range inconclusive {
			fmt.Printf("INCONCLUSIVE property=%s reason=%s\n", prop, m)
		}
	}
	writeEvidence(evPath, prop, tier, seed, l, results, time.Since(t0), inconclusive, validated, func() []map[string]interface{} {
		var out []map[string]interface{}
		for _, v := range news {
			out = append(out, map[string]interface{}{"harness": v.v.Harness, "label": v.v.Label, "native": v.native, "replay": v.file, "detail": v.v.Detail})
		}
		for _, v := range knowns {
			out = append(out, map[string]interface{}{"harness": v.v.Harness, "label": v.v.Label, "known": v.v.Known, "native": v.native})
		}
		return out
	}())
	if rc == 0 {
		fmt.Printf("OK property=%s tier=%s harnesses=%d wall=%.1fs\n", prop, tier, len(results), time.Since(t0).Seconds())
	}
	return rc
}

// labelBelongs attributes a label in a multi-harness file to a harness by naming convention:
// labels are attributed to the harness whose name prefixes them ("VerifC02a:..."), otherwise to
// every harness of a single-harness file.
func labelBelongs(l *loaded, file, label, harness string) bool {
	n := 0
	for _, h := range l.harnesses {
		if l.prog.Fset.Position(h.Pos()).Filename == file {
			n++
		}
	}
	if n == 1 {
		return true
	}
	// multi-harness file: label must be "<suffix>:..." where harness ends with suffix, or plain labels are
	// attributed by call-graph reachability (approximated: not attributed)
	if k := strings.Index(label, ":"); k > 0 {
		return strings.HasSuffix(harness, label[:k])
	}
	return false
}

func writeEvidence(path, prop, tier string, seed int64, l *loaded, results []*harnessResult, wall time.Duration, inconclusive []string, validated int, viols []map[string]interface{}) {
	os.MkdirAll(filepath.Dir(path), 0o755)
	cov := map[string]interface{}{}
	var states, transitions, paths, oblig, discharged, unknown, evals, nontrivial, queries int64
	var solverT float64
	var samples []interface{}
	funcs := map[string]*ssa.Function{}
	stubs := map[string]bool{}
	outside := map[string]bool{}
	perHarness := map[string]interface{}{}
	labelsTotal, labelsReached := 0, 0
	for _, r := range results {
		states += r.Blocks
		transitions += r.Decisions
		paths += int64(r.Paths)
		evals += int64(r.Paths)
		nontrivial += int64(r.NonTrivial)
		queries += int64(r.Solver.Queries)
		solverT += r.Solver.Time.Seconds()
		for verdict, n := range r.Oblig {
			oblig += int64(n)
			switch verdict {
			case "unsat", "trivially-true":
				discharged += int64(n)
			case "unknown":
				unknown += int64(n)
			}
		}
		for k := range r.Funcs {
			funcs[k.String()] = k
		}
		for k := range r.Stubs {
			stubs[k] = true
		}
		for k := range r.Outside {
			outside[k] = true
		}
		labelsReached += len(r.Reached)
		perHarness[r.Name] = map[string]interface{}{"paths": r.Paths, "infeasible": r.Infeasible, "obligations": r.Oblig,
			"by_label": r.ObligByLabel, "queries": r.Solver.Queries, "solver_time_s": round2(r.Solver.Time.Seconds()), "max_query_s": round2(r.Solver.MaxQuery.Seconds()),
			"wall_s": round2(r.Wall.Seconds()), "steps": r.Steps, "unknown_branches": r.UnknownBr, "aborted": r.Aborted, "capped": r.Capped,
			"bounds": harnessBounds(l, r.Name, tier)}
		n := 0
		for _, s := range r.Samples {
			if n >= 3 {
				break
			}
			if len(s.Oblig) == 0 {
				continue
			}
			samples = append(samples, map[string]interface{}{"harness": s.Harness, "decisions": s.Decisions, "obligations": s.Oblig, "witness": s.Witness})
			n++
		}
	}
	if len(samples) == 0 {
		samples = append(samples, map[string]interface{}{"note": "no completed path with an obligation"})
	}
	var fe []map[string]string
	if l != nil {
		var names []string
		for k := range funcs {
			names = append(names, k)
		}
		sort.Strings(names)
		for _, n := range names {
			fn := funcs[n]
			if fn == nil || fn.Pkg == nil || !strings.HasPrefix(fn.Pkg.Pkg.Path(), "github.com/pokt-network/pocket-core") || strings.HasSuffix(fn.Pkg.Pkg.Path(), "/verifrt") {
				continue
			}
			fe = append(fe, map[string]string{"fn": n, "src_sha": srcHash(l.prog, fn)})
		}
		for _, ls := range l.labels {
			labelsTotal += len(ls)
		}
	}
	if states == 0 {
		states = 1
	}
	if transitions == 0 {
		transitions = 1
	}
	cov["states"] = states
	cov["transitions"] = transitions
	cov["traces_validated_against_impl"] = validated
	cov["samples"] = samples
	cov["paths"] = paths
	cov["obligations"] = oblig
	cov["discharged"] = discharged
	cov["unknown"] = unknown
	cov["queries"] = queries
	cov["solver_time_s"] = round2(solverT)
	cov["evaluations"] = evals
	cov["distinct_nontrivial"] = nontrivial
	cov["rule"] = "one evaluation = one feasible control-flow path of a harness, decided by the solver for all values of its symbolic inputs; non-trivial = carries at least one assertion (VC); distinct = distinct decision sequences; states = basic blocks executed over all paths; transitions = symbolic decisions taken"
	cov["functions_encoded"] = fe
	cov["stubs_used"] = sortedKeys(stubs)
	cov["outside_claim"] = sortedKeys(outside)
	cov["vacuity"] = map[string]int{"labels": labelsTotal, "reached": labelsReached}
	cov["per_harness"] = perHarness
	cov["checker_cmd"] = *flagSolver + " -in"
	cov["trusted_base"] = []string{"go/packages+go/ssa (x/tools v0.29.0)", "gosym executor (/verif/engine)", "z3 5.1.0 (z3-new)", "stub contracts listed in assumptions / stubs_used", "verifrt harness models"}
	cov["inconclusive"] = inconclusive
	cov["violations_detail"] = viols
	cov["exhaustive"] = false
	assumptions := []string{
		"bounded: every claim is for the bounds coded in the harnesses (see bounds in DESIGN.md §5 and outside_claim); nothing outside them is claimed",
		"Go maps iterate in insertion order unless the harness enables nondeterministic order",
		"code under test runs sequentially (sync primitives are no-ops)",
	}
	for _, s := range sortedKeys(stubs) {
		assumptions = append(assumptions, "stub: "+s)
	}
	nv := 0
	for _, v := range viols {
		if _, known := v["known"]; !known {
			nv++
		}
	}
	ev := map[string]interface{}{"property_id": prop, "tier": tier, "seed": seed, "level": "model_checking", "coverage": cov,
		"assumptions": assumptions, "wall_s": round2(wall.Seconds()), "violations": nv}
	data, _ := json.MarshalIndent(ev, "", " ")
	os.WriteFile(path, data, 0o644)
}

func round2(x float64) float64 { return float64(int64(x*100+0.5)) / 100 }

// replayFile re-runs a recorded counterexample natively.
func replayFile(path string) int {
	data, err := os.ReadFile(path)
	if err != nil {
		fmt.Println("cannot read", path, err)
		return 2
	}
	var t nativeTape
	if err := json.Unmarshal(data, &t); err != nil {
		fmt.Println("bad replay file:", err)
		return 2
	}
	l, err := loadProgram(t.Property)
	if err != nil {
		fmt.Println("load:", err)
		return 2
	}
	outs, log, err := runNative(l, t.Dir, []nativeTape{t})
	if err != nil {
		fmt.Println(log)
		fmt.Println("native run failed:", err)
		return 2
	}
	o := outs[0]
	fmt.Printf("replay harness=%s label=%s: failed=%v panic=%q assume_failed=%v\n", t.Harness, t.Label, o.failed, o.panicMsg, o.assumeF)
	for _, f := range o.failed {
		if f == t.Label {
			fmt.Printf("VIOLATION property=%s replay=%s\n", t.Property, path)
			return 1
		}
	}
	if t.Label == "panic" && o.panicMsg != "" {
		fmt.Printf("VIOLATION property=%s replay=%s\n", t.Property, path)
		return 1
	}
	fmt.Println("not reproduced")
	return 0
}
