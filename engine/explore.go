package main

// Decision-replay DFS over the paths of one harness, on a pool of workers.

import (
	"fmt"
	"math/big"
	"os"
	"runtime/debug"
	"sort"
	"strings"
	"sync"
	"time"

	"golang.org/x/tools/go/ssa"
)

type Config struct {
	Tier          int
	Unwind        int
	CutFn         string // function-name suffix whose loops are cut after CutN iterations (outside claim)
	CutN          int
	RealFns       map[string]bool // functions whose intrinsic is switched off for this harness (the real body runs)
	MaxSteps      int64
	MaxDepth      int
	MaxDecisions  int
	MaxSymIndex   int
	MaxSymLen     int
	MaxPaths      int
	WallS         int
	Workers       int
	QueryTimeoutS int
	Solver        string
	Known         map[string]bool
	Verbose       bool
	Seed          int64
	ExpectPanics  bool
}

type pathSample struct {
	Harness   string            `json:"harness"`
	Decisions string            `json:"decisions"`
	Oblig     []string          `json:"obligations,omitempty"`
	Outcome   string            `json:"outcome"`
	Witness   map[string]string `json:"witness,omitempty"`
	tape      []tapeEntry
	observes  []string
	tapeOK    bool
}

type harnessResult struct {
	Name         string
	Paths        int // completed feasible paths (incl. those ended by an expected target panic)
	Infeasible   int
	Aborted      map[string]int // unsupported / budget reasons → count
	Fatal        int
	Violations   []violation
	Oblig        map[string]int // verdict → count
	ObligByLabel map[string]map[string]int
	Reached      map[string]bool
	Steps        int64
	Blocks       int64
	Decisions    int64
	NonTrivial   int
	UnknownBr    int
	Solver       SolverStats
	Samples      []pathSample
	Stubs        map[string]bool
	Outside      map[string]bool
	Funcs        map[*ssa.Function]bool
	Wall         time.Duration
	Capped       string
	DistinctSeqs map[string]bool
}

type explorer struct {
	s       *shared
	fn      *ssa.Function
	cfg     *Config
	mu      sync.Mutex
	cond    *sync.Cond
	queue   []workItem
	active  int
	res     *harnessResult
	started time.Time
	stop    bool
	nItems  int
}

func (s *shared) explore(fn *ssa.Function, cfg *Config) *harnessResult {
	ex := &explorer{s: s, fn: fn, cfg: cfg, started: time.Now()}
	ex.cond = sync.NewCond(&ex.mu)
	ex.res = &harnessResult{Name: fn.Name(), Aborted: map[string]int{}, Oblig: map[string]int{},
		ObligByLabel: map[string]map[string]int{}, Reached: map[string]bool{}, Stubs: map[string]bool{},
		Outside: map[string]bool{}, Funcs: map[*ssa.Function]bool{}, DistinctSeqs: map[string]bool{}}
	ex.queue = []workItem{{}}
	if os.Getenv("GOSYM_PROGRESS") != "" {
		done := make(chan struct{})
		defer close(done)
		go func() {
			for {
				select {
				case <-done:
					return
				case <-time.After(10 * time.Second):
					ex.mu.Lock()
					fmt.Fprintf(os.Stderr, "[%s %.0fs] items=%d paths=%d infeasible=%d queue=%d active=%d aborted=%d viol=%d steps=%d\n", fn.Name(), time.Since(ex.started).Seconds(),
						ex.nItems, ex.res.Paths, ex.res.Infeasible, len(ex.queue), ex.active, len(ex.res.Aborted), len(ex.res.Violations), ex.res.Steps)
					ex.mu.Unlock()
				}
			}
		}()
	}
	var wg sync.WaitGroup
	for w := 0; w < cfg.Workers; w++ {
		wg.Add(1)
		go func(w int) {
			defer wg.Done()
			ex.worker(w)
		}(w)
	}
	wg.Wait()
	ex.res.Wall = time.Since(ex.started)
	return ex.res
}

func (ex *explorer) worker(id int) {
	solver, err := newSolver(ex.cfg.Solver, ex.cfg.QueryTimeoutS)
	if err != nil {
		ex.mu.Lock()
		ex.res.Aborted["solver start: "+err.Error()]++
		ex.mu.Unlock()
		return
	}
	if d := os.Getenv("GOSYM_SMTLOG"); d != "" {
		if f, err := os.Create(fmt.Sprintf("%s/worker%d.smt2", d, id)); err == nil {
			solver.log = f
			defer f.Close()
		}
	}
	defer func() {
		ex.mu.Lock()
		st := solver.stats
		r := &ex.res.Solver
		r.Queries += st.Queries
		r.Sat += st.Sat
		r.Unsat += st.Unsat
		r.Unknown += st.Unknown
		r.Errors += st.Errors
		r.Time += st.Time
		if st.MaxQuery > r.MaxQuery {
			r.MaxQuery = st.MaxQuery
		}
		ex.mu.Unlock()
		solver.Close()
	}()
	for {
		ex.mu.Lock()
		for len(ex.queue) == 0 && ex.active > 0 && !ex.stop {
			ex.cond.Wait()
		}
		if ex.stop || (len(ex.queue) == 0 && ex.active == 0) {
			ex.mu.Unlock()
			ex.cond.Broadcast()
			return
		}
		item := ex.queue[len(ex.queue)-1]
		ex.queue = ex.queue[:len(ex.queue)-1]
		ex.active++
		ex.nItems++
		if ex.cfg.MaxPaths > 0 && ex.nItems > ex.cfg.MaxPaths {
			ex.res.Capped = fmt.Sprintf("path cap %d reached", ex.cfg.MaxPaths)
			ex.stop = true
		}
		if ex.cfg.WallS > 0 && time.Since(ex.started) > time.Duration(ex.cfg.WallS)*time.Second {
			ex.res.Capped = fmt.Sprintf("wall cap %ds reached", ex.cfg.WallS)
			ex.stop = true
		}
		if ex.stop {
			ex.active--
			ex.mu.Unlock()
			ex.cond.Broadcast()
			return
		}
		ex.mu.Unlock()

		p, outcome, detail := ex.s.runPath(ex.fn, item, solver, ex.cfg, nil)

		ex.mu.Lock()
		ex.merge(p, outcome, detail)
		ex.queue = append(ex.queue, p.siblings...)
		ex.active--
		ex.mu.Unlock()
		ex.cond.Broadcast()
	}
}

// runPath executes the harness once along item.prefix. replay != nil runs concretely with the
// given nondet values.
func (s *shared) runPath(fn *ssa.Function, item workItem, solver *Solver, cfg *Config, replay []*big.Int) (p *pathState, outcome, detail string) {
	tf := newTF()
	solver.Reset()
	i := s.newInterp(tf, solver)
	p = &pathState{harness: fn.Name(), prefix: item.prefix, reached: map[string]bool{}, hashApps: map[string][]hashApp{},
		known: map[string]*Term{}, stubs: map[string]bool{}, funcs: map[*ssa.Function]bool{}, replayVal: replay}
	if item.model != nil {
		p.model = Model{}
		for k, v := range item.model {
			p.model[k] = v
		}
	} else if len(item.prefix) == 0 {
		p.model = Model{}
	}
	i.path = p
	outcome = "completed"
	func() {
		defer func() {
			r := recover()
			if r == nil {
				return
			}
			switch r := r.(type) {
			case engineAbort:
				switch r.kind {
				case abInfeasible:
					outcome = "infeasible"
				case abUnsupported:
					outcome, detail = "unsupported", r.msg
				case abBudget:
					outcome, detail = "budget", r.msg
				case abFatal:
					outcome, detail = "fatal", r.msg
				case abStop:
					outcome = "stopped"
				}
			case targetPanic:
				outcome, detail = "panic", toString(r.v)
				if ifc, ok := r.v.(iface); ok && ifc.t != nil {
					if str, ok := i.tryStringMethod(ifc); ok {
						detail = str
					}
				}
			default:
				msg := fmt.Sprint(r)
				if strings.Contains(msg, "nil pointer dereference") || strings.Contains(msg, "index out of range") || strings.Contains(msg, "slice bounds out of range") {
					// Go runtime errors raised while the engine manipulates target memory model the
					// same runtime error in the target
					outcome, detail = "panic", msg
					if os.Getenv("GOSYM_STACK") != "" {
						fmt.Fprintf(os.Stderr, "host runtime error taken as target panic: %v\n%s\n", r, debug.Stack())
					}
				} else {
					outcome, detail = "unsupported", "engine panic: "+msg
					if cfg.Verbose {
						fmt.Fprintf(os.Stderr, "engine panic: %v\n%s\n", r, debug.Stack())
					}
				}
			}
		}()
		callSSA(i, nil, 0, fn, nil, nil)
	}()
	if outcome == "panic" && !cfg.ExpectPanics {
		// an uncaught panic in the code under test is a violation unless the harness catches it
		if p.pos < len(p.prefix) {
			// diverged replay; cannot happen
		}
		m := p.model
		res := "cached"
		if m == nil {
			var mm Model
			res, mm = solver.Check(true)
			if res == "sat" {
				m = mm
			}
		}
		if m != nil {
			p.viols = append(p.viols, violation{Harness: p.harness, Label: "panic", Decisions: append([]int(nil), p.decisions...),
				Tape: i.fillTape(m), Model: modelStrings(m), Detail: detail, Panic: true})
		} else if res == "unsat" {
			// the path condition is unsatisfiable (a branch kept after an "unknown" answer, or
			// assumptions added since): no execution takes this path
			outcome, detail = "infeasible", ""
		} else {
			outcome, detail = "unsupported", "panic path without model (" + res + ", decisions " + decString(p.decisions) + "): " + detail
		}
	}
	return
}

func decString(d []int) string {
	var sb strings.Builder
	for _, x := range d {
		if x < 10 {
			sb.WriteByte(byte('0' + x))
		} else {
			fmt.Fprintf(&sb, "(%d)", x)
		}
	}
	return sb.String()
}

func (ex *explorer) merge(p *pathState, outcome, detail string) {
	r := ex.res
	r.Steps += p.steps
	r.Blocks += p.blocks
	r.Decisions += int64(len(p.decisions))
	r.UnknownBr += p.unknownBr
	for k := range p.stubs {
		r.Stubs[k] = true
	}
	for _, k := range p.outside {
		r.Outside[k] = true
	}
	for k := range p.funcs {
		r.Funcs[k] = true
	}
	switch outcome {
	case "infeasible":
		r.Infeasible++
		return
	case "unsupported", "budget":
		r.Aborted[outcome+": "+detail]++
	case "fatal":
		r.Fatal++
		r.Aborted["fatal: "+detail]++
	default:
		r.Paths++
	}
	for k := range p.reached {
		r.Reached[k] = true
	}
	nontrivial := false
	var ob []string
	for _, o := range p.oblig {
		r.Oblig[o.Verdict]++
		if r.ObligByLabel[o.Label] == nil {
			r.ObligByLabel[o.Label] = map[string]int{}
		}
		r.ObligByLabel[o.Label][o.Verdict]++
		nontrivial = true
		ob = append(ob, o.Label+":"+o.Verdict)
	}
	ds := decString(p.decisions)
	if nontrivial && !r.DistinctSeqs[ds] {
		r.DistinctSeqs[ds] = true
		r.NonTrivial++
	}
	r.Violations = append(r.Violations, p.viols...)
	if len(r.Samples) < 200 && outcome == "completed" && len(p.viols) == 0 {
		s := pathSample{Harness: p.harness, Decisions: ds, Oblig: ob, Outcome: outcome}
		if p.model != nil {
			// the cached model satisfies the whole path condition only if no later constraint
			// invalidated it; it is re-validated before use as a witness
			s.tape = append([]tapeEntry(nil), p.tape...)
			memo := map[int]*big.Int{}
			okm := true
			for _, c := range p.pc {
				if Eval(c, p.model, memo).Sign() == 0 {
					okm = false
					break
				}
			}
			if okm {
				s.tapeOK = true
				s.Witness = map[string]string{}
				for k, e := range s.tape {
					if e.Var != nil {
						v := Eval(e.Var, p.model, memo)
						if e.Var.sort.K == SBV && (e.Kind == "i64" || e.Kind == "i32") {
							v = sval(v, e.Var.sort.W)
						}
						s.tape[k].Val = v.String()
						s.Witness[e.Var.name] = v.String()
					}
				}
				for _, o := range p.observes {
					s.observes = append(s.observes, o.Name+"="+renderObserved(o.Val, p.model, memo))
				}
			}
		}
		r.Samples = append(r.Samples, s)
	}
}

// renderObserved mirrors verifrt.Render on engine values under a model.
func renderObserved(v value, m Model, memo map[int]*big.Int) string {
	evalScalar := func(x value) string {
		switch x := x.(type) {
		case *Term:
			r := Eval(x, m, memo)
			if x.sort.K == SBool {
				if r.Sign() != 0 {
					return "true"
				}
				return "false"
			}
			return r.String()
		case bool:
			if x {
				return "true"
			}
			return "false"
		}
		if c, ok := concreteBig(x); ok {
			return c.String()
		}
		return fmt.Sprintf("<%T>", x)
	}
	bytesHex := func(bs []value) string {
		var sb strings.Builder
		for _, b := range bs {
			var n uint64
			switch b := b.(type) {
			case uint8:
				n = uint64(b)
			case *Term:
				n = Eval(b, m, memo).Uint64()
			}
			fmt.Fprintf(&sb, "%02x", n)
		}
		return sb.String() + "."
	}
	switch x := v.(type) {
	case iface:
		if x.t == nil {
			return "nil"
		}
		if _, isErr := x.v.(*value); isErr && strings.Contains(x.t.String(), "rror") {
			return "error"
		}
		return renderObserved(x.v, m, memo)
	case []value:
		if x == nil {
			return "nil"
		}
		return bytesHex(x)
	case string:
		return bytesHex(strBytes(x))
	case symstr:
		return bytesHex(x)
	case *value:
		if x == nil {
			return "nil"
		}
		if b, ok := (*x).(*bigv); ok {
			if b.c != nil {
				return b.c.String()
			}
			return Eval(b.t, m, memo).String()
		}
		return "ptr"
	}
	return evalScalar(v)
}

func sortedKeys(m map[string]bool) []string {
	var out []string
	for k := range m {
		out = append(out, k)
	}
	sort.Strings(out)
	return out
}
