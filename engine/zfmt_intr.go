package main

// Term-level models of strconv.Itoa/FormatInt and of fmt.Sprintf for the %s/%c/%d/%v verbs, used
// where formatted strings are store keys (transaction indexer, upgrade features).

import (
	"go/types"
	"math/big"
)

// itoaSym renders a symbolic non-fixed integer in decimal: forks on the digit count, then relates
// fresh digit bytes to the value by a linear constraint.
func (i *interpreter) itoaSym(t types.Type, x *Term) value {
	f := i.tf
	xi := i.intOf(t, x)
	neg := false
	if lo, _ := irange(xi); lo == nil || lo.Sign() < 0 {
		if i.branch(f.ICmp(OILt, xi, f.Int(0))) {
			neg = true
			xi = f.INeg(xi)
		}
	}
	k := 0
	pow := big.NewInt(1)
	for d := 1; d <= 20; d++ {
		pow = new(big.Int).Mul(pow, big.NewInt(10))
		if i.branch(f.ICmp(OILt, xi, f.IntB(pow))) {
			k = d
			break
		}
	}
	if k == 0 {
		unsupported("itoa of symbolic value with more than 20 digits")
	}
	out := make(symstr, 0, k+1)
	if neg {
		out = append(out, uint8('-'))
	}
	sum := f.Int(0)
	cons := f.Bool(true)
	for j := 0; j < k; j++ {
		c := i.fresh("dig", bvSort(8))
		lo := uint64('0')
		if j == 0 && k > 1 {
			lo = '1'
		}
		cons = f.And(cons, f.BvCmp(OBvUle, f.BV(8, lo), c), f.BvCmp(OBvUle, c, f.BV(8, '9')))
		dv := f.IBin(OISub, f.Bv2Int(c), f.Int('0'))
		w := new(big.Int).Exp(big.NewInt(10), big.NewInt(int64(k-1-j)), nil)
		sum = f.IBin(OIAdd, sum, f.IBin(OIMul, dv, f.IntB(w)))
		out = append(out, c)
	}
	cons = f.And(cons, f.Eq(sum, xi))
	i.addPC(cons)
	i.path.invalidateModel()
	i.stub("strconv.Itoa/FormatInt on symbolic values: digit decomposition x = sum d_j*10^j with a fork on the digit count")
	return normStr(out)
}

// sprintfSym handles formats made of literal text and plain %s %v %d %c verbs when an argument is
// symbolic. ok=false: not handled.
func (i *interpreter) sprintfSym(format string, args []value) (value, bool) {
	var out symstr
	ai := 0
	for k := 0; k < len(format); k++ {
		ch := format[k]
		if ch != '%' {
			out = append(out, ch)
			continue
		}
		k++
		if k >= len(format) {
			return nil, false
		}
		verb := format[k]
		if verb == '%' {
			out = append(out, uint8('%'))
			continue
		}
		if ai >= len(args) {
			return nil, false
		}
		a := args[ai]
		ai++
		var dt types.Type
		if x, ok := a.(iface); ok {
			if x.t == nil {
				return nil, false
			}
			dt, a = x.t, x.v
			// Stringer / error
			if verb == 's' || verb == 'v' {
				if _, isStr := a.(string); !isStr {
					if _, isSym := a.(symstr); !isSym {
						if s, ok := i.tryStringMethodV(x); ok {
							out = append(out, strBytes(s)...)
							continue
						}
					}
				}
			}
		}
		switch verb {
		case 's', 'v':
			switch s := a.(type) {
			case string, symstr:
				out = append(out, strBytes(s)...)
			case []value:
				out = append(out, s...)
			case *Term:
				if verb != 'v' || dt == nil {
					return nil, false
				}
				out = append(out, strBytes(i.itoaSym(dt, s))...)
			default:
				if c, ok := concreteBig(a); ok && verb == 'v' {
					out = append(out, strBytes(c.String())...)
				} else {
					return nil, false
				}
			}
		case 'd':
			switch s := a.(type) {
			case *Term:
				if dt == nil {
					return nil, false
				}
				out = append(out, strBytes(i.itoaSym(dt, s))...)
			default:
				c, ok := concreteBig(a)
				if !ok {
					return nil, false
				}
				out = append(out, strBytes(c.String())...)
			}
		case 'c':
			r, ok := a.(int32)
			if !ok || r >= 0x80 {
				return nil, false
			}
			out = append(out, uint8(r))
		default:
			return nil, false
		}
	}
	return normStr(out), true
}

// tryStringMethodV is tryStringMethod returning the (possibly symbolic) string value.
func (i *interpreter) tryStringMethodV(x iface) (s value, ok bool) {
	defer func() {
		if r := recover(); r != nil {
			if ea, isAbort := r.(engineAbort); isAbort && ea.kind != abUnsupported {
				panic(r)
			}
			s, ok = nil, false
		}
	}()
	for _, name := range []string{"Error", "String"} {
		sel := i.prog.MethodSets.MethodSet(x.t).Lookup(nil, name)
		if sel == nil {
			continue
		}
		sig := sel.Type().(*types.Signature)
		if sig.Params().Len() != 0 || sig.Results().Len() != 1 {
			continue
		}
		fn := i.prog.MethodValue(sel)
		if fn == nil {
			continue
		}
		r := call(i, nil, 0, fn, []value{x.v})
		switch r.(type) {
		case string, symstr:
			return r, true
		}
		return nil, false
	}
	return nil, false
}

func anySymbolic(args []value) bool {
	for _, a := range args {
		if x, ok := a.(iface); ok {
			a = x.v
		}
		switch s := a.(type) {
		case *Term, symstr:
			return true
		case []value:
			for _, e := range s {
				if _, ok := e.(*Term); ok {
					return true
				}
			}
		}
	}
	return false
}

func init() {
	regSimple("fmt.Sprintf", func(fr *frame, args []value) value {
		i := fr.i
		if fs, ok := args[0].(string); ok && anySymbolic(args[1].([]value)) {
			if r, ok := i.sprintfSym(fs, args[1].([]value)); ok {
				return r
			}
		}
		return i.sprintf(args[0], args[1].([]value))
	})
	itoa := func(t types.Type) func(fr *frame, args []value) (value, bool) {
		return func(fr *frame, args []value) (value, bool) {
			if tm, ok := args[0].(*Term); ok {
				if len(args) > 1 {
					if b, ok := args[1].(int); !ok || b != 10 {
						unsupported("FormatInt of symbolic value in base != 10")
					}
				}
				return fr.i.itoaSym(t, tm), true
			}
			return nil, false
		}
	}
	reg("strconv.Itoa", itoa(types.Typ[types.Int]))
	reg("strconv.FormatInt", itoa(types.Typ[types.Int64]))
	reg("strconv.FormatUint", itoa(types.Typ[types.Uint64]))
}
