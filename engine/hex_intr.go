package main

import (
	"encoding/hex"
	"go/types"
)

type hexOrigin struct {
	t  *Term
	hi bool
}

func (i *interpreter) hexOrigins() map[*Term]hexOrigin {
	m, _ := i.hostData["hexOrigins"].(map[*Term]hexOrigin)
	if m == nil {
		m = map[*Term]hexOrigin{}
		i.hostData["hexOrigins"] = m
	}
	return m
}

func init() {
	// hex.DecodeString: a concrete string is decoded by the host; a symbolic string is decoded
	// character pair by character pair (a pair produced by hex.EncodeToString from byte b decodes
	// back to exactly b; any other pair through the nibble table, with one fork on validity).
	reg("encoding/hex.DecodeString", func(fr *frame, args []value) (value, bool) {
		i := fr.i
		switch s := args[0].(type) {
		case string:
			bz, err := hex.DecodeString(s)
			out := make([]value, len(bz))
			for k, b := range bz {
				out[k] = b
			}
			if err != nil {
				return tuple{out, i.newError(err.Error())}, true
			}
			return tuple{out, iface{}}, true
		case symstr:
			f := i.tf
			if len(s)%2 == 1 {
				return nil, false
			}
			org := i.hexOrigins()
			out := make([]value, 0, len(s)/2)
			valid := f.Bool(true)
			u8 := types.Typ[types.Uint8]
			nib := func(c *Term) (*Term, *Term) {
				in := func(lo, hi byte) *Term {
					return f.And(f.BvCmp(OBvUle, f.BV(8, uint64(lo)), c), f.BvCmp(OBvUle, c, f.BV(8, uint64(hi))))
				}
				d, a, A := in('0', '9'), in('a', 'f'), in('A', 'F')
				val := f.Ite(d, f.BvBin(OBvSub, c, f.BV(8, '0')), f.Ite(a, f.BvBin(OBvSub, c, f.BV(8, 'a'-10)), f.BvBin(OBvSub, c, f.BV(8, 'A'-10))))
				return val, f.Or(d, f.Or(a, A))
			}
			for k := 0; k < len(s); k += 2 {
				h, l := i.byteTerm(s[k]), i.byteTerm(s[k+1])
				if oh, ok := org[h]; ok && oh.hi {
					if ol, ok := org[l]; ok && !ol.hi && ol.t == oh.t {
						out = append(out, fixType(u8, oh.t))
						continue
					}
				}
				hv, hok := nib(h)
				lv, lok := nib(l)
				valid = f.And(valid, f.And(hok, lok))
				out = append(out, fixType(u8, f.BvBin(OBvOr, f.BvBin(OBvShl, hv, f.BV(8, 4)), lv)))
			}
			if !i.branch(valid) {
				return tuple{[]value{}, i.newError("encoding/hex: invalid byte")}, true
			}
			return tuple{out, iface{}}, true
		}
		return nil, false
	})
}
