package main

import (
	"math/big"
	"strconv"
)

func init() {
	B := "(*math/big.Int)."
	regSimple(B+"Bit", func(fr *frame, args []value) value {
		i := fr.i
		x := i.bigGet(args[0], "Bit")
		k, ok := args[1].(int)
		if !ok {
			unsupported("big.Int.Bit with symbolic index")
		}
		if x.c != nil {
			return x.c.Bit(k)
		}
		f := i.tf
		// two's-complement bit k of x = ((x mod 2^(k+1)) div 2^k) with Euclidean mod
		hi := f.IntB(new(big.Int).Lsh(big.NewInt(1), uint(k+1)))
		lo := f.IntB(new(big.Int).Lsh(big.NewInt(1), uint(k)))
		r := f.IBin(OIDiv, f.IBin(OIMod, x.t, hi), lo)
		r.lo, r.hi = big.NewInt(0), big.NewInt(1)
		return r
	})
	// encoding/json on the paths executed here only feeds log lines; it is replaced by an opaque
	// token (recorded as a stub). Parameter and codec JSON are intercepted at their own level.
	regSimple("encoding/json.Marshal", func(fr *frame, args []value) value {
		fr.i.stub("encoding/json.Marshal returns an opaque token (used for log output only)")
		return tuple{[]value{uint8('<'), uint8('j'), uint8('>')}, iface{}}
	})
}

func init() {
	// (*big.Int).UnmarshalText on concrete text is parsed by the host; symbolic text is outside
	// what the engine models (callers bound their buffers so that amounts stay concrete).
	regSimple("(*math/big.Int).UnmarshalText", func(fr *frame, args []value) value {
		bs, _ := args[1].([]value)
		raw := make([]byte, len(bs))
		for k, b := range bs {
			c, ok := b.(uint8)
			if !ok {
				unsupported("big.Int.UnmarshalText of symbolic text")
			}
			raw[k] = c
		}
		r := new(big.Int)
		if err := r.UnmarshalText(raw); err != nil {
			return fr.i.newError("math/big: cannot unmarshal " + strconv.Quote(string(raw)) + " into a *big.Int")
		}
		fr.i.bigSetC(args[0], r)
		return iface{}
	})
}
