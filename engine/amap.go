package main

// Association-list maps with deterministic (insertion) order and symbolic-key support.

import (
	"go/types"
)

type amap struct {
	kt     types.Type
	keys   []value
	vals   []value
	live   []bool
	n      int
	cidx   map[interface{}]int // index of concrete basic keys
	hasSym int                 // number of live non-indexable keys
}

func newAmap(kt types.Type) *amap {
	return &amap{kt: kt, cidx: map[interface{}]int{}}
}

// indexable reports whether k can be used directly as a Go map key with the right equality.
func indexable(k value) bool {
	switch k.(type) {
	case bool, int, int8, int16, int32, int64, uint, uint8, uint16, uint32, uint64, uintptr, string, float32, float64, *value:
		return true
	}
	return false
}

func (m *amap) len() int {
	if m == nil {
		return 0
	}
	return m.n
}

// find returns the slot holding key k, or -1. May fork the path on symbolic equality.
func (i *interpreter) mapFind(m *amap, k value) int {
	if m == nil {
		return -1
	}
	kIdx := indexable(k)
	if kIdx {
		if s, ok := m.cidx[k]; ok {
			return s
		}
		if m.hasSym == 0 {
			return -1
		}
	}
	for s := range m.keys {
		if !m.live[s] {
			continue
		}
		if kIdx && indexable(m.keys[s]) {
			continue // already handled through cidx
		}
		switch r := i.eqv(m.kt, m.keys[s], k).(type) {
		case bool:
			if r {
				return s
			}
		case *Term:
			if i.branch(r) {
				return s
			}
		}
	}
	return -1
}

func (i *interpreter) mapInsert(m *amap, k, v value) {
	if s := i.mapFind(m, k); s >= 0 {
		m.vals[s] = v
		return
	}
	m.keys = append(m.keys, k)
	m.vals = append(m.vals, v)
	m.live = append(m.live, true)
	m.n++
	if indexable(k) {
		m.cidx[k] = len(m.keys) - 1
	} else {
		m.hasSym++
	}
}

func (i *interpreter) mapDelete(m *amap, k value) {
	if m == nil {
		return
	}
	s := i.mapFind(m, k)
	if s < 0 {
		return
	}
	m.live[s] = false
	m.n--
	if indexable(m.keys[s]) {
		delete(m.cidx, m.keys[s])
	} else {
		m.hasSym--
	}
	m.vals[s] = nil
}

func (i *interpreter) mapLookup(m *amap, k value) (value, bool) {
	s := i.mapFind(m, k)
	if s < 0 {
		return nil, false
	}
	return m.vals[s], true
}

// amapIter iterates over a snapshot of the live slots. With nondeterministic order enabled, the
// order is a symbolic permutation (each next() picks any remaining slot).
type amapIter struct {
	i     *interpreter
	m     *amap
	slots []int
	pos   int
	nd    bool
}

func (i *interpreter) newMapIter(m *amap) *amapIter {
	it := &amapIter{i: i, m: m, nd: i.path.mapNondet}
	if m != nil {
		for s := range m.keys {
			if m.live[s] {
				it.slots = append(it.slots, s)
			}
		}
	}
	return it
}

func (it *amapIter) next() tuple {
	for len(it.slots) > 0 {
		k := 0
		if it.nd && len(it.slots) > 1 {
			k = it.i.choice(len(it.slots))
		}
		s := it.slots[k]
		it.slots = append(it.slots[:k:k], it.slots[k+1:]...)
		if !it.m.live[s] {
			continue // deleted during iteration
		}
		return tuple{true, it.m.keys[s], it.m.vals[s]}
	}
	return tuple{false, nil, nil}
}
