package main

// Streaming SHA-256 (hash.Hash from sha256.New / tmhash.New): the bytes written are accumulated in
// a side table keyed by the digest object and Sum applies the same hash model as sha256.Sum256
// (host hash on concrete bytes, ideal hash otherwise).
func init() {
	acc := func(fr *frame) map[*value][]value {
		m, _ := fr.i.hostData["sha256acc"].(map[*value][]value)
		if m == nil {
			m = map[*value][]value{}
			fr.i.hostData["sha256acc"] = m
		}
		return m
	}
	self := func(v value) *value {
		p, ok := v.(*value)
		if !ok || p == nil {
			unsupported("sha256 digest method on a nil receiver")
		}
		return p
	}
	regSimple("(*crypto/sha256.digest).Reset", func(fr *frame, args []value) value {
		acc(fr)[self(args[0])] = nil
		return nil
	})
	regSimple("(*crypto/sha256.digest).Write", func(fr *frame, args []value) value {
		p := self(args[0])
		b, _ := args[1].([]value)
		m := acc(fr)
		m[p] = append(append([]value(nil), m[p]...), b...)
		return tuple{len(b), iface{}}
	})
	regSimple("(*crypto/sha256.digest).Sum", func(fr *frame, args []value) value {
		p := self(args[0])
		in, _ := args[1].([]value)
		h := fr.i.idealHash("sha256", acc(fr)[p], 32)
		return append(append([]value(nil), in...), h...)
	})
	regSimple("(*crypto/sha256.digest).Size", func(fr *frame, args []value) value { return 32 })
	regSimple("(*crypto/sha256.digest).BlockSize", func(fr *frame, args []value) value { return 64 })
}
