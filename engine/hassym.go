package main

// hasSymbolic reports whether a value graph contains a symbolic leaf (bounded depth).
func hasSymbolic(v value, depth int) bool {
	if depth < 0 {
		return false
	}
	switch x := v.(type) {
	case *Term, symstr:
		return true
	case *bigv:
		return x != nil && x.t != nil
	case *value:
		if x == nil {
			return false
		}
		return hasSymbolic(*x, depth-1)
	case structure:
		for _, e := range x {
			if hasSymbolic(e, depth-1) {
				return true
			}
		}
	case array:
		for _, e := range x {
			if hasSymbolic(e, depth-1) {
				return true
			}
		}
	case []value:
		for _, e := range x {
			if hasSymbolic(e, depth-1) {
				return true
			}
		}
	case iface:
		return hasSymbolic(x.v, depth-1)
	case *amap:
		if x == nil {
			return false
		}
		for s := range x.keys {
			if x.live[s] && (hasSymbolic(x.keys[s], depth-1) || hasSymbolic(x.vals[s], depth-1)) {
				return true
			}
		}
	}
	return false
}
