package main

// Hash-consed SMT terms with local simplification, printing and evaluation.

import (
	"fmt"
	"math/big"
	"sort"
	"strings"
)

type SortKind uint8

const (
	SBool SortKind = iota
	SBV
	SInt
)

type Sort struct {
	K SortKind
	W int
}

func (s Sort) String() string {
	switch s.K {
	case SBool:
		return "Bool"
	case SBV:
		return fmt.Sprintf("(_ BitVec %d)", s.W)
	}
	return "Int"
}

var (
	sortBool = Sort{SBool, 0}
	sortInt  = Sort{SInt, 0}
)

func bvSort(w int) Sort { return Sort{SBV, w} }

type Op uint8

const (
	OConst Op = iota
	OVar
	ONot
	OAnd
	OOr
	OEq
	OIte
	// BV
	OBvAdd
	OBvSub
	OBvMul
	OBvUDiv
	OBvURem
	OBvSDiv
	OBvSRem
	OBvAnd
	OBvOr
	OBvXor
	OBvNot
	OBvNeg
	OBvShl
	OBvLshr
	OBvAshr
	OBvUlt
	OBvUle
	OBvSlt
	OBvSle
	OConcat
	OExtract // hi, lo in X,Y
	OZext    // result width in sort
	OSext
	// Int
	OIAdd
	OISub
	OIMul
	OIDiv // SMT euclidean div
	OIMod // SMT mod
	OINeg
	OIAbs
	OILt
	OILe
	OBv2Int // unsigned
	OInt2Bv
)

var opNames = map[Op]string{
	ONot: "not", OAnd: "and", OOr: "or", OEq: "=", OIte: "ite",
	OBvAdd: "bvadd", OBvSub: "bvsub", OBvMul: "bvmul", OBvUDiv: "bvudiv", OBvURem: "bvurem",
	OBvSDiv: "bvsdiv", OBvSRem: "bvsrem", OBvAnd: "bvand", OBvOr: "bvor", OBvXor: "bvxor",
	OBvNot: "bvnot", OBvNeg: "bvneg", OBvShl: "bvshl", OBvLshr: "bvlshr", OBvAshr: "bvashr",
	OBvUlt: "bvult", OBvUle: "bvule", OBvSlt: "bvslt", OBvSle: "bvsle", OConcat: "concat",
	OIAdd: "+", OISub: "-", OIMul: "*", OIDiv: "div", OIMod: "mod", OINeg: "-", OIAbs: "abs",
	OILt: "<", OILe: "<=", OBv2Int: "bv2int",
}

type Term struct {
	op   Op
	sort Sort
	args []*Term
	name string   // OVar
	c    *big.Int // OConst (bool: 0/1)
	x, y int      // OExtract hi,lo
	id   int
	// interval metadata for Int-sorted terms carrying a Go fixed-width integer (nil = unknown)
	lo, hi *big.Int
}

func (t *Term) isConst() bool { return t.op == OConst }
func (t *Term) isTrue() bool  { return t.op == OConst && t.sort.K == SBool && t.c.Sign() != 0 }
func (t *Term) isFalse() bool { return t.op == OConst && t.sort.K == SBool && t.c.Sign() == 0 }

// TF is a term factory (one per worker; not thread safe).
type TF struct {
	table map[string]*Term
	next  int
	vars  []*Term
}

func newTF() *TF { return &TF{table: map[string]*Term{}} }

func (f *TF) mk(op Op, s Sort, args ...*Term) *Term {
	var sb strings.Builder
	fmt.Fprintf(&sb, "%d|%d.%d", op, s.K, s.W)
	for _, a := range args {
		fmt.Fprintf(&sb, "|%d", a.id)
	}
	k := sb.String()
	if t, ok := f.table[k]; ok {
		return t
	}
	f.next++
	t := &Term{op: op, sort: s, args: args, id: f.next}
	f.table[k] = t
	return t
}

func (f *TF) Var(name string, s Sort) *Term {
	k := "v|" + name
	if t, ok := f.table[k]; ok {
		if t.sort != s {
			panic("var redeclared with different sort: " + name)
		}
		return t
	}
	f.next++
	t := &Term{op: OVar, sort: s, name: name, id: f.next}
	f.table[k] = t
	f.vars = append(f.vars, t)
	return t
}

func (f *TF) constKey(s Sort, c *big.Int) string {
	return fmt.Sprintf("c|%d.%d|%s", s.K, s.W, c.String())
}

func (f *TF) Const(s Sort, c *big.Int) *Term {
	if s.K == SBV {
		c = new(big.Int).And(c, mask(s.W)) // also normalises negatives (two's complement)
	}
	k := f.constKey(s, c)
	if t, ok := f.table[k]; ok {
		return t
	}
	f.next++
	t := &Term{op: OConst, sort: s, c: new(big.Int).Set(c), id: f.next}
	f.table[k] = t
	return t
}

func mask(w int) *big.Int {
	m := new(big.Int).Lsh(big.NewInt(1), uint(w))
	return m.Sub(m, big.NewInt(1))
}

func (f *TF) Bool(b bool) *Term {
	if b {
		return f.Const(sortBool, big.NewInt(1))
	}
	return f.Const(sortBool, big.NewInt(0))
}
func (f *TF) BV(w int, v uint64) *Term { return f.Const(bvSort(w), new(big.Int).SetUint64(v)) }
func (f *TF) BVs(w int, v int64) *Term { return f.Const(bvSort(w), big.NewInt(v)) }
func (f *TF) Int(v int64) *Term        { return f.Const(sortInt, big.NewInt(v)) }
func (f *TF) IntB(v *big.Int) *Term    { return f.Const(sortInt, v) }

// signed value of a BV constant
func sval(c *big.Int, w int) *big.Int {
	if c.Bit(w-1) == 1 {
		return new(big.Int).Sub(c, new(big.Int).Lsh(big.NewInt(1), uint(w)))
	}
	return c
}

func (f *TF) Not(a *Term) *Term {
	if a.isConst() {
		return f.Bool(a.c.Sign() == 0)
	}
	if a.op == ONot {
		return a.args[0]
	}
	return f.mk(ONot, sortBool, a)
}

func (f *TF) And(as ...*Term) *Term {
	var out []*Term
	seen := map[int]bool{}
	var add func(a *Term) bool
	add = func(a *Term) bool {
		if a.isFalse() {
			return false
		}
		if a.isTrue() || seen[a.id] {
			return true
		}
		if a.op == OAnd {
			for _, x := range a.args {
				if !add(x) {
					return false
				}
			}
			return true
		}
		seen[a.id] = true
		out = append(out, a)
		return true
	}
	for _, a := range as {
		if !add(a) {
			return f.Bool(false)
		}
	}
	for _, a := range out {
		if a.op == ONot && seen[a.args[0].id] {
			return f.Bool(false)
		}
	}
	switch len(out) {
	case 0:
		return f.Bool(true)
	case 1:
		return out[0]
	}
	sort.Slice(out, func(i, j int) bool { return out[i].id < out[j].id })
	return f.mk(OAnd, sortBool, out...)
}

func (f *TF) Or(as ...*Term) *Term {
	var out []*Term
	seen := map[int]bool{}
	var add func(a *Term) bool
	add = func(a *Term) bool {
		if a.isTrue() {
			return false
		}
		if a.isFalse() || seen[a.id] {
			return true
		}
		if a.op == OOr {
			for _, x := range a.args {
				if !add(x) {
					return false
				}
			}
			return true
		}
		seen[a.id] = true
		out = append(out, a)
		return true
	}
	for _, a := range as {
		if !add(a) {
			return f.Bool(true)
		}
	}
	for _, a := range out {
		if a.op == ONot && seen[a.args[0].id] {
			return f.Bool(true)
		}
	}
	switch len(out) {
	case 0:
		return f.Bool(false)
	case 1:
		return out[0]
	}
	sort.Slice(out, func(i, j int) bool { return out[i].id < out[j].id })
	return f.mk(OOr, sortBool, out...)
}

func (f *TF) Implies(a, b *Term) *Term { return f.Or(f.Not(a), b) }

// isIteConstTree reports whether t is an ite tree with only constant leaves (depth-limited).
func isIteConstTree(t *Term, depth int) bool {
	if t.isConst() {
		return true
	}
	if t.op == OIte && depth > 0 {
		return isIteConstTree(t.args[1], depth-1) && isIteConstTree(t.args[2], depth-1)
	}
	return false
}

// liftIte pushes a unary function over an ite tree with constant leaves.
func (f *TF) liftIte(t *Term, fn func(*Term) *Term) *Term {
	if t.op == OIte {
		return f.Ite(t.args[0], f.liftIte(t.args[1], fn), f.liftIte(t.args[2], fn))
	}
	return fn(t)
}

func (f *TF) Eq(a, b *Term) *Term {
	if a.sort != b.sort {
		panic(fmt.Sprintf("Eq sort mismatch %v %v", a.sort, b.sort))
	}
	if a == b {
		return f.Bool(true)
	}
	if a.isConst() && b.isConst() {
		return f.Bool(a.c.Cmp(b.c) == 0)
	}
	if a.sort.K == SBool {
		if a.isConst() {
			a, b = b, a
		}
		if b.isConst() {
			if b.isTrue() {
				return a
			}
			return f.Not(a)
		}
	}
	if b.isConst() && a.op == OIte && isIteConstTree(a, 24) {
		return f.liftIte(a, func(l *Term) *Term { return f.Eq(l, b) })
	}
	if a.isConst() && b.op == OIte && isIteConstTree(b, 24) {
		return f.liftIte(b, func(l *Term) *Term { return f.Eq(a, l) })
	}
	// concat(x1,x2) = const → split (keeps byte-wise structure visible to the simplifier)
	if a.sort.K == SBV && a.op == OConcat && b.op == OConcat && a.args[0].sort == b.args[0].sort {
		return f.And(f.Eq(a.args[0], b.args[0]), f.Eq(a.args[1], b.args[1]))
	}
	if a.sort.K == SBV && a.op == OConcat && b.isConst() {
		wl := a.args[1].sort.W
		return f.And(f.Eq(a.args[0], f.Extract(b, a.sort.W-1, wl)), f.Eq(a.args[1], f.Extract(b, wl-1, 0)))
	}
	if a.sort.K == SBV && b.op == OConcat && a.isConst() {
		return f.Eq(b, a)
	}
	if a.id > b.id {
		a, b = b, a
	}
	return f.mk(OEq, sortBool, a, b)
}

func (f *TF) Ite(c, a, b *Term) *Term {
	if a.sort != b.sort {
		panic(fmt.Sprintf("Ite sort mismatch %v %v", a.sort, b.sort))
	}
	if c.isConst() {
		if c.isTrue() {
			return a
		}
		return b
	}
	if a == b {
		return a
	}
	if a.sort.K == SBool {
		if a.isTrue() && b.isFalse() {
			return c
		}
		if a.isFalse() && b.isTrue() {
			return f.Not(c)
		}
		if a.isTrue() {
			return f.Or(c, b)
		}
		if a.isFalse() {
			return f.And(f.Not(c), b)
		}
		if b.isTrue() {
			return f.Or(f.Not(c), a)
		}
		if b.isFalse() {
			return f.And(c, a)
		}
	}
	if c.op == ONot {
		return f.Ite(c.args[0], b, a)
	}
	t := f.mk(OIte, a.sort, c, a, b)
	if a.sort.K == SInt && t.lo == nil && a.lo != nil && b.lo != nil {
		t.lo, t.hi = bmin(a.lo, b.lo), bmax(a.hi, b.hi)
	}
	return t
}

func bmin(a, b *big.Int) *big.Int {
	if a.Cmp(b) <= 0 {
		return a
	}
	return b
}
func bmax(a, b *big.Int) *big.Int {
	if a.Cmp(b) >= 0 {
		return a
	}
	return b
}

// foldBV computes a binary BV op on constants; ok=false if not foldable.
func foldBV(op Op, w int, a, b *big.Int) (*big.Int, bool) {
	m := mask(w)
	r := new(big.Int)
	switch op {
	case OBvAdd:
		r.Add(a, b)
	case OBvSub:
		r.Sub(a, b)
	case OBvMul:
		r.Mul(a, b)
	case OBvUDiv:
		if b.Sign() == 0 {
			return m, true
		}
		r.Quo(a, b)
	case OBvURem:
		if b.Sign() == 0 {
			return a, true
		}
		r.Rem(a, b)
	case OBvSDiv:
		sa, sb := sval(a, w), sval(b, w)
		if sb.Sign() == 0 {
			if sa.Sign() >= 0 {
				return m, true
			}
			return big.NewInt(1), true
		}
		r.Quo(sa, sb)
	case OBvSRem:
		sa, sb := sval(a, w), sval(b, w)
		if sb.Sign() == 0 {
			return a, true
		}
		r.Rem(sa, sb)
	case OBvAnd:
		r.And(a, b)
	case OBvOr:
		r.Or(a, b)
	case OBvXor:
		r.Xor(a, b)
	case OBvShl:
		if b.Cmp(big.NewInt(int64(w))) >= 0 {
			return big.NewInt(0), true
		}
		r.Lsh(a, uint(b.Uint64()))
	case OBvLshr:
		if b.Cmp(big.NewInt(int64(w))) >= 0 {
			return big.NewInt(0), true
		}
		r.Rsh(a, uint(b.Uint64()))
	case OBvAshr:
		sa := sval(a, w)
		sh := uint(w)
		if b.Cmp(big.NewInt(int64(w))) < 0 {
			sh = uint(b.Uint64())
		}
		r.Rsh(sa, sh)
	default:
		return nil, false
	}
	return r.And(r, m), true
}

func (f *TF) BvBin(op Op, a, b *Term) *Term {
	if a.sort != b.sort || a.sort.K != SBV {
		panic(fmt.Sprintf("BvBin %s sort mismatch %v %v", opNames[op], a.sort, b.sort))
	}
	w := a.sort.W
	if a.isConst() && b.isConst() {
		if r, ok := foldBV(op, w, a.c, b.c); ok {
			return f.Const(a.sort, r)
		}
	}
	zero := func(t *Term) bool { return t.isConst() && t.c.Sign() == 0 }
	ones := func(t *Term) bool { return t.isConst() && t.c.Cmp(mask(w)) == 0 }
	switch op {
	case OBvAdd, OBvOr, OBvXor:
		if zero(a) {
			return b
		}
		if zero(b) {
			return a
		}
		if op == OBvOr && (ones(a) || ones(b)) {
			return f.Const(a.sort, mask(w))
		}
		if op == OBvOr && a == b {
			return a
		}
		if op == OBvXor && a == b {
			return f.BV(w, 0)
		}
	case OBvSub:
		if zero(b) {
			return a
		}
		if a == b {
			return f.BV(w, 0)
		}
	case OBvAnd:
		if zero(a) || zero(b) {
			return f.BV(w, 0)
		}
		if ones(a) {
			return b
		}
		if ones(b) {
			return a
		}
		if a == b {
			return a
		}
	case OBvMul:
		if zero(a) || zero(b) {
			return f.BV(w, 0)
		}
		if a.isConst() && a.c.Cmp(big.NewInt(1)) == 0 {
			return b
		}
		if b.isConst() && b.c.Cmp(big.NewInt(1)) == 0 {
			return a
		}
	case OBvShl, OBvLshr, OBvAshr:
		if zero(b) {
			return a
		}
		if zero(a) {
			return a
		}
	case OBvUDiv, OBvSDiv:
		if b.isConst() && b.c.Cmp(big.NewInt(1)) == 0 {
			return a
		}
	}
	// push through ite-constant trees
	if b.isConst() && a.op == OIte && isIteConstTree(a, 16) {
		return f.liftIte(a, func(l *Term) *Term { return f.BvBin(op, l, b) })
	}
	if a.isConst() && b.op == OIte && isIteConstTree(b, 16) {
		return f.liftIte(b, func(l *Term) *Term { return f.BvBin(op, a, l) })
	}
	switch op {
	case OBvAdd, OBvMul, OBvAnd, OBvOr, OBvXor:
		if a.id > b.id {
			a, b = b, a
		}
	}
	return f.mk(op, a.sort, a, b)
}

func (f *TF) BvNot(a *Term) *Term {
	if a.isConst() {
		return f.Const(a.sort, new(big.Int).Xor(a.c, mask(a.sort.W)))
	}
	if a.op == OBvNot {
		return a.args[0]
	}
	return f.mk(OBvNot, a.sort, a)
}

func (f *TF) BvNeg(a *Term) *Term {
	if a.isConst() {
		return f.Const(a.sort, new(big.Int).Neg(a.c))
	}
	return f.mk(OBvNeg, a.sort, a)
}

func (f *TF) BvCmp(op Op, a, b *Term) *Term {
	if a.sort != b.sort || a.sort.K != SBV {
		panic(fmt.Sprintf("BvCmp sort mismatch %v %v", a.sort, b.sort))
	}
	w := a.sort.W
	if a.isConst() && b.isConst() {
		var r bool
		switch op {
		case OBvUlt:
			r = a.c.Cmp(b.c) < 0
		case OBvUle:
			r = a.c.Cmp(b.c) <= 0
		case OBvSlt:
			r = sval(a.c, w).Cmp(sval(b.c, w)) < 0
		case OBvSle:
			r = sval(a.c, w).Cmp(sval(b.c, w)) <= 0
		}
		return f.Bool(r)
	}
	if a == b {
		return f.Bool(op == OBvUle || op == OBvSle)
	}
	if b.isConst() && a.op == OIte && isIteConstTree(a, 24) {
		return f.liftIte(a, func(l *Term) *Term { return f.BvCmp(op, l, b) })
	}
	if a.isConst() && b.op == OIte && isIteConstTree(b, 24) {
		return f.liftIte(b, func(l *Term) *Term { return f.BvCmp(op, a, l) })
	}
	if op == OBvUlt && b.isConst() && b.c.Sign() == 0 {
		return f.Bool(false)
	}
	if op == OBvUle && a.isConst() && a.c.Sign() == 0 {
		return f.Bool(true)
	}
	// zero-extended operands compare unsigned on the narrow width
	if (op == OBvUlt || op == OBvUle) && a.op == OZext && b.op == OZext && a.args[0].sort == b.args[0].sort {
		return f.BvCmp(op, a.args[0], b.args[0])
	}
	return f.mk(op, sortBool, a, b)
}

func (f *TF) Concat(a, b *Term) *Term {
	s := bvSort(a.sort.W + b.sort.W)
	if a.isConst() && b.isConst() {
		r := new(big.Int).Lsh(a.c, uint(b.sort.W))
		return f.Const(s, r.Or(r, b.c))
	}
	// concat(extract(x,h,m+1), extract(x,m,l)) = extract(x,h,l)
	if a.op == OExtract && b.op == OExtract && a.args[0] == b.args[0] && a.y == b.x+1 {
		return f.Extract(a.args[0], a.x, b.y)
	}
	return f.mk(OConcat, s, a, b)
}

func (f *TF) Extract(a *Term, hi, lo int) *Term {
	if a.sort.K != SBV || hi >= a.sort.W || lo < 0 || hi < lo {
		panic(fmt.Sprintf("bad extract [%d:%d] of %v", hi, lo, a.sort))
	}
	if lo == 0 && hi == a.sort.W-1 {
		return a
	}
	w := hi - lo + 1
	if a.isConst() {
		r := new(big.Int).Rsh(a.c, uint(lo))
		return f.Const(bvSort(w), r)
	}
	switch a.op {
	case OExtract:
		return f.Extract(a.args[0], a.y+hi, a.y+lo)
	case OConcat:
		wl := a.args[1].sort.W
		if hi < wl {
			return f.Extract(a.args[1], hi, lo)
		}
		if lo >= wl {
			return f.Extract(a.args[0], hi-wl, lo-wl)
		}
		return f.Concat(f.Extract(a.args[0], hi-wl, 0), f.Extract(a.args[1], wl-1, lo))
	case OZext:
		iw := a.args[0].sort.W
		if hi < iw {
			return f.Extract(a.args[0], hi, lo)
		}
		if lo >= iw {
			return f.BV(w, 0)
		}
		return f.Zext(f.Extract(a.args[0], iw-1, lo), w)
	case OSext:
		iw := a.args[0].sort.W
		if hi < iw {
			return f.Extract(a.args[0], hi, lo)
		}
	case OIte:
		if isIteConstTree(a, 16) {
			return f.liftIte(a, func(l *Term) *Term { return f.Extract(l, hi, lo) })
		}
	case OBvAnd, OBvOr, OBvXor:
		return f.BvBin(a.op, f.Extract(a.args[0], hi, lo), f.Extract(a.args[1], hi, lo))
	case OBvLshr:
		// extract of (x >> k) for constant k
		if a.args[1].isConst() && a.args[1].c.IsInt64() {
			k := int(a.args[1].c.Int64())
			if hi+k < a.sort.W {
				return f.Extract(a.args[0], hi+k, lo+k)
			}
		}
	case OBvShl:
		if a.args[1].isConst() && a.args[1].c.IsInt64() {
			k := int(a.args[1].c.Int64())
			if lo-k >= 0 {
				return f.Extract(a.args[0], hi-k, lo-k)
			}
			if hi < k {
				return f.BV(w, 0)
			}
		}
	}
	return f.mkExtract(a, hi, lo)
}

func (f *TF) mkExtract(a *Term, hi, lo int) *Term {
	k := fmt.Sprintf("x|%d|%d|%d", a.id, hi, lo)
	if t, ok := f.table[k]; ok {
		return t
	}
	f.next++
	t := &Term{op: OExtract, sort: bvSort(hi - lo + 1), args: []*Term{a}, x: hi, y: lo, id: f.next}
	f.table[k] = t
	return t
}

func (f *TF) Zext(a *Term, w int) *Term {
	if w == a.sort.W {
		return a
	}
	if w < a.sort.W {
		panic("zext narrowing")
	}
	if a.isConst() {
		return f.Const(bvSort(w), a.c)
	}
	if a.op == OZext {
		return f.Zext(a.args[0], w)
	}
	if a.op == OIte && isIteConstTree(a, 16) {
		return f.liftIte(a, func(l *Term) *Term { return f.Zext(l, w) })
	}
	return f.mk(OZext, bvSort(w), a)
}

func (f *TF) Sext(a *Term, w int) *Term {
	if w == a.sort.W {
		return a
	}
	if w < a.sort.W {
		panic("sext narrowing")
	}
	if a.isConst() {
		return f.Const(bvSort(w), sval(a.c, a.sort.W))
	}
	if a.op == OIte && isIteConstTree(a, 16) {
		return f.liftIte(a, func(l *Term) *Term { return f.Sext(l, w) })
	}
	return f.mk(OSext, bvSort(w), a)
}

// ---------- Int ----------

func (f *TF) setRange(t *Term, lo, hi *big.Int) *Term {
	if t.op != OConst && lo != nil && hi != nil {
		if t.lo == nil || lo.Cmp(t.lo) > 0 {
			t.lo = lo
		}
		if t.hi == nil || hi.Cmp(t.hi) < 0 {
			t.hi = hi
		}
	}
	return t
}

func irange(t *Term) (lo, hi *big.Int) {
	if t.op == OConst {
		return t.c, t.c
	}
	return t.lo, t.hi
}

func (f *TF) IBin(op Op, a, b *Term) *Term {
	if a.sort.K != SInt || b.sort.K != SInt {
		panic(fmt.Sprintf("IBin %s on non-Int %v %v", opNames[op], a.sort, b.sort))
	}
	if a.isConst() && b.isConst() {
		r := new(big.Int)
		switch op {
		case OIAdd:
			return f.IntB(r.Add(a.c, b.c))
		case OISub:
			return f.IntB(r.Sub(a.c, b.c))
		case OIMul:
			return f.IntB(r.Mul(a.c, b.c))
		case OIDiv:
			if b.c.Sign() != 0 {
				return f.IntB(r.Div(a.c, b.c)) // Euclidean, same as SMT-LIB
			}
		case OIMod:
			if b.c.Sign() != 0 {
				return f.IntB(r.Mod(a.c, b.c))
			}
		}
	}
	isz := func(t *Term) bool { return t.isConst() && t.c.Sign() == 0 }
	is1 := func(t *Term) bool { return t.isConst() && t.c.Cmp(big.NewInt(1)) == 0 }
	switch op {
	case OIAdd:
		if isz(a) {
			return b
		}
		if isz(b) {
			return a
		}
	case OISub:
		if isz(b) {
			return a
		}
		if a == b {
			return f.Int(0)
		}
	case OIMul:
		if isz(a) || isz(b) {
			return f.Int(0)
		}
		if is1(a) {
			return b
		}
		if is1(b) {
			return a
		}
	case OIDiv:
		if is1(b) {
			return a
		}
	case OIMod:
		if is1(b) {
			return f.Int(0)
		}
	}
	if (op == OIAdd || op == OIMul) && a.id > b.id {
		a, b = b, a
	}
	t := f.mk(op, sortInt, a, b)
	if t.lo == nil {
		alo, ahi := irange(a)
		blo, bhi := irange(b)
		if alo != nil && blo != nil {
			switch op {
			case OIAdd:
				t.lo, t.hi = new(big.Int).Add(alo, blo), new(big.Int).Add(ahi, bhi)
			case OISub:
				t.lo, t.hi = new(big.Int).Sub(alo, bhi), new(big.Int).Sub(ahi, blo)
			case OIMul:
				c := []*big.Int{new(big.Int).Mul(alo, blo), new(big.Int).Mul(alo, bhi), new(big.Int).Mul(ahi, blo), new(big.Int).Mul(ahi, bhi)}
				lo, hi := c[0], c[0]
				for _, x := range c[1:] {
					lo, hi = bmin(lo, x), bmax(hi, x)
				}
				t.lo, t.hi = lo, hi
			case OIDiv:
				if blo.Sign() > 0 {
					// euclidean div by positive: monotone in a, antitone in b for a>=0
					c := []*big.Int{new(big.Int).Div(alo, blo), new(big.Int).Div(alo, bhi), new(big.Int).Div(ahi, blo), new(big.Int).Div(ahi, bhi)}
					lo, hi := c[0], c[0]
					for _, x := range c[1:] {
						lo, hi = bmin(lo, x), bmax(hi, x)
					}
					t.lo, t.hi = lo, hi
				}
			case OIMod:
				if blo.Sign() > 0 {
					t.lo, t.hi = big.NewInt(0), new(big.Int).Sub(bhi, big.NewInt(1))
					if alo.Sign() >= 0 && ahi.Cmp(t.hi) < 0 {
						t.hi = ahi
					}
				}
			}
		}
	}
	return t
}

func (f *TF) INeg(a *Term) *Term {
	if a.isConst() {
		return f.IntB(new(big.Int).Neg(a.c))
	}
	if a.op == OINeg {
		return a.args[0]
	}
	t := f.mk(OINeg, sortInt, a)
	if t.lo == nil && a.lo != nil {
		t.lo, t.hi = new(big.Int).Neg(a.hi), new(big.Int).Neg(a.lo)
	}
	return t
}

func (f *TF) IAbs(a *Term) *Term {
	if a.isConst() {
		return f.IntB(new(big.Int).Abs(a.c))
	}
	lo, hi := irange(a)
	if lo != nil && lo.Sign() >= 0 {
		return a
	}
	t := f.mk(OIAbs, sortInt, a)
	if t.lo == nil && lo != nil {
		m := new(big.Int).Abs(lo)
		if h := new(big.Int).Abs(hi); h.Cmp(m) > 0 {
			m = h
		}
		t.lo, t.hi = big.NewInt(0), m
	}
	return t
}

func (f *TF) ICmp(op Op, a, b *Term) *Term {
	if a.sort.K != SInt || b.sort.K != SInt {
		panic(fmt.Sprintf("ICmp on non-Int %v %v", a.sort, b.sort))
	}
	if a.isConst() && b.isConst() {
		if op == OILt {
			return f.Bool(a.c.Cmp(b.c) < 0)
		}
		return f.Bool(a.c.Cmp(b.c) <= 0)
	}
	if a == b {
		return f.Bool(op == OILe)
	}
	alo, ahi := irange(a)
	blo, bhi := irange(b)
	if alo != nil && blo != nil {
		if op == OILt {
			if ahi.Cmp(blo) < 0 {
				return f.Bool(true)
			}
			if alo.Cmp(bhi) >= 0 {
				return f.Bool(false)
			}
		} else {
			if ahi.Cmp(blo) <= 0 {
				return f.Bool(true)
			}
			if alo.Cmp(bhi) > 0 {
				return f.Bool(false)
			}
		}
	}
	if b.isConst() && a.op == OIte && isIteConstTree(a, 24) {
		return f.liftIte(a, func(l *Term) *Term { return f.ICmp(op, l, b) })
	}
	if a.isConst() && b.op == OIte && isIteConstTree(b, 24) {
		return f.liftIte(b, func(l *Term) *Term { return f.ICmp(op, a, l) })
	}
	return f.mk(op, sortBool, a, b)
}

// Bv2Int: unsigned interpretation.
func (f *TF) Bv2Int(a *Term) *Term {
	if a.isConst() {
		return f.IntB(a.c)
	}
	if a.op == OInt2Bv {
		// int2bv then bv2int = mod 2^w; if range known within [0,2^w) identity
		x := a.args[0]
		lo, hi := irange(x)
		if lo != nil && lo.Sign() >= 0 && hi.Cmp(mask(a.sort.W)) <= 0 {
			return x
		}
	}
	if a.op == OIte && isIteConstTree(a, 16) {
		return f.liftIte(a, func(l *Term) *Term { return f.Bv2Int(l) })
	}
	if a.op == OZext {
		return f.Bv2Int(a.args[0])
	}
	t := f.mk(OBv2Int, sortInt, a)
	if t.lo == nil {
		t.lo, t.hi = big.NewInt(0), mask(a.sort.W)
	}
	return t
}

// Bv2IntSigned: signed interpretation of a BV as Int.
func (f *TF) Bv2IntSigned(a *Term) *Term {
	w := a.sort.W
	if a.isConst() {
		return f.IntB(sval(a.c, w))
	}
	if a.op == OInt2Bv {
		x := a.args[0]
		lo, hi := irange(x)
		half := new(big.Int).Lsh(big.NewInt(1), uint(w-1))
		if lo != nil && lo.Cmp(new(big.Int).Neg(half)) >= 0 && hi.Cmp(half) < 0 {
			return x
		}
	}
	u := f.Bv2Int(a)
	two := new(big.Int).Lsh(big.NewInt(1), uint(w))
	neg := f.BvCmp(OBvSlt, a, f.BV(w, 0))
	t := f.Ite(neg, f.IBin(OISub, u, f.IntB(two)), u)
	half := new(big.Int).Lsh(big.NewInt(1), uint(w-1))
	f.setRange(t, new(big.Int).Neg(half), new(big.Int).Sub(half, big.NewInt(1)))
	return t
}

func (f *TF) Int2Bv(a *Term, w int) *Term {
	if a.isConst() {
		return f.Const(bvSort(w), a.c)
	}
	if a.op == OBv2Int && a.args[0].sort.W == w {
		return a.args[0]
	}
	k := fmt.Sprintf("i2b|%d|%d", a.id, w)
	if t, ok := f.table[k]; ok {
		return t
	}
	f.next++
	t := &Term{op: OInt2Bv, sort: bvSort(w), args: []*Term{a}, id: f.next}
	f.table[k] = t
	return t
}

// ---------- printing ----------

func smtConst(t *Term) string {
	switch t.sort.K {
	case SBool:
		if t.c.Sign() != 0 {
			return "true"
		}
		return "false"
	case SBV:
		if t.sort.W%4 == 0 {
			return fmt.Sprintf("#x%0*s", t.sort.W/4, t.c.Text(16))
		}
		return fmt.Sprintf("(_ bv%s %d)", t.c.String(), t.sort.W)
	}
	if t.c.Sign() < 0 {
		return fmt.Sprintf("(- %s)", new(big.Int).Neg(t.c).String())
	}
	return t.c.String()
}

func (t *Term) ref() string {
	switch t.op {
	case OConst:
		return smtConst(t)
	case OVar:
		return t.name
	}
	return fmt.Sprintf("t%d", t.id)
}

func (t *Term) body() string {
	var sb strings.Builder
	switch t.op {
	case OExtract:
		fmt.Fprintf(&sb, "((_ extract %d %d) %s)", t.x, t.y, t.args[0].ref())
		return sb.String()
	case OZext:
		fmt.Fprintf(&sb, "((_ zero_extend %d) %s)", t.sort.W-t.args[0].sort.W, t.args[0].ref())
		return sb.String()
	case OSext:
		fmt.Fprintf(&sb, "((_ sign_extend %d) %s)", t.sort.W-t.args[0].sort.W, t.args[0].ref())
		return sb.String()
	case OInt2Bv:
		fmt.Fprintf(&sb, "((_ int2bv %d) %s)", t.sort.W, t.args[0].ref())
		return sb.String()
	}
	sb.WriteString("(")
	sb.WriteString(opNames[t.op])
	for _, a := range t.args {
		sb.WriteString(" ")
		sb.WriteString(a.ref())
	}
	sb.WriteString(")")
	return sb.String()
}

// String renders the full term (for debugging/samples), bounded in size.
func (t *Term) String() string {
	var sb strings.Builder
	t.write(&sb, 6)
	return sb.String()
}

func (t *Term) write(sb *strings.Builder, depth int) {
	if t.op == OConst || t.op == OVar {
		sb.WriteString(t.ref())
		return
	}
	if depth == 0 {
		sb.WriteString("…")
		return
	}
	switch t.op {
	case OExtract:
		fmt.Fprintf(sb, "((_ extract %d %d) ", t.x, t.y)
	case OZext:
		sb.WriteString("(zext ")
	case OSext:
		sb.WriteString("(sext ")
	case OInt2Bv:
		sb.WriteString("(int2bv ")
	default:
		sb.WriteString("(" + opNames[t.op] + " ")
	}
	for i, a := range t.args {
		if i > 0 {
			sb.WriteString(" ")
		}
		a.write(sb, depth-1)
	}
	sb.WriteString(")")
}

// ---------- evaluation ----------

type Model map[string]*big.Int

// Eval evaluates t under m. Unassigned variables are 0 (and recorded in m).
func Eval(t *Term, m Model, memo map[int]*big.Int) *big.Int {
	if r, ok := memo[t.id]; ok {
		return r
	}
	var r *big.Int
	b2i := func(b bool) *big.Int {
		if b {
			return big.NewInt(1)
		}
		return big.NewInt(0)
	}
	ev := func(i int) *big.Int { return Eval(t.args[i], m, memo) }
	switch t.op {
	case OConst:
		r = t.c
	case OVar:
		v, ok := m[t.name]
		if !ok {
			v = big.NewInt(0)
			m[t.name] = v
		}
		r = v
	case ONot:
		r = b2i(ev(0).Sign() == 0)
	case OAnd:
		r = big.NewInt(1)
		for i := range t.args {
			if ev(i).Sign() == 0 {
				r = big.NewInt(0)
				break
			}
		}
	case OOr:
		r = big.NewInt(0)
		for i := range t.args {
			if ev(i).Sign() != 0 {
				r = big.NewInt(1)
				break
			}
		}
	case OEq:
		r = b2i(ev(0).Cmp(ev(1)) == 0)
	case OIte:
		if ev(0).Sign() != 0 {
			r = ev(1)
		} else {
			r = ev(2)
		}
	case OBvAdd, OBvSub, OBvMul, OBvUDiv, OBvURem, OBvSDiv, OBvSRem, OBvAnd, OBvOr, OBvXor, OBvShl, OBvLshr, OBvAshr:
		r, _ = foldBV(t.op, t.sort.W, ev(0), ev(1))
	case OBvNot:
		r = new(big.Int).Xor(ev(0), mask(t.sort.W))
	case OBvNeg:
		r = new(big.Int).And(new(big.Int).Neg(ev(0)), mask(t.sort.W))
	case OBvUlt:
		r = b2i(ev(0).Cmp(ev(1)) < 0)
	case OBvUle:
		r = b2i(ev(0).Cmp(ev(1)) <= 0)
	case OBvSlt:
		w := t.args[0].sort.W
		r = b2i(sval(ev(0), w).Cmp(sval(ev(1), w)) < 0)
	case OBvSle:
		w := t.args[0].sort.W
		r = b2i(sval(ev(0), w).Cmp(sval(ev(1), w)) <= 0)
	case OConcat:
		r = new(big.Int).Lsh(ev(0), uint(t.args[1].sort.W))
		r.Or(r, ev(1))
	case OExtract:
		r = new(big.Int).Rsh(ev(0), uint(t.y))
		r.And(r, mask(t.x-t.y+1))
	case OZext:
		r = ev(0)
	case OSext:
		r = new(big.Int).And(sval(ev(0), t.args[0].sort.W), mask(t.sort.W))
	case OIAdd:
		r = new(big.Int).Add(ev(0), ev(1))
	case OISub:
		r = new(big.Int).Sub(ev(0), ev(1))
	case OIMul:
		r = new(big.Int).Mul(ev(0), ev(1))
	case OIDiv:
		if ev(1).Sign() == 0 {
			r = big.NewInt(0)
		} else {
			r = new(big.Int).Div(ev(0), ev(1))
		}
	case OIMod:
		if ev(1).Sign() == 0 {
			r = ev(0)
		} else {
			r = new(big.Int).Mod(ev(0), ev(1))
		}
	case OINeg:
		r = new(big.Int).Neg(ev(0))
	case OIAbs:
		r = new(big.Int).Abs(ev(0))
	case OILt:
		r = b2i(ev(0).Cmp(ev(1)) < 0)
	case OILe:
		r = b2i(ev(0).Cmp(ev(1)) <= 0)
	case OBv2Int:
		r = ev(0)
	case OInt2Bv:
		r = new(big.Int).And(ev(0), mask(t.sort.W))
	default:
		panic(fmt.Sprintf("Eval: op %d", t.op))
	}
	memo[t.id] = r
	return r
}

// vars collects the variables t depends on.
func termVars(t *Term, seen map[int]bool, out *[]*Term) {
	if seen[t.id] {
		return
	}
	seen[t.id] = true
	if t.op == OVar {
		*out = append(*out, t)
		return
	}
	for _, a := range t.args {
		termVars(a, seen, out)
	}
}
