package main

import "go/types"

// ctxTag returns the ChainID of a harness context (used to select per-context parameter values),
// or "" when the context is nil or its chain id is not a concrete string.
func (i *interpreter) ctxTag(ctx value) (tag string) {
	x, ok := ctx.(iface)
	if !ok || x.t == nil {
		return ""
	}
	defer func() {
		if r := recover(); r != nil {
			if ea, isAbort := r.(engineAbort); isAbort && ea.kind != abUnsupported {
				panic(r)
			}
			tag = ""
		}
	}()
	sel := i.prog.MethodSets.MethodSet(x.t).Lookup(nil, "ChainID")
	if sel == nil {
		return ""
	}
	if sig := sel.Type().(*types.Signature); sig.Params().Len() != 0 {
		return ""
	}
	fn := i.prog.MethodValue(sel)
	if fn == nil {
		return ""
	}
	r := call(i, nil, 0, fn, []value{x.v})
	s, _ := r.(string)
	return s
}

func init() {
	regSimple(rtPkg+".ParamFor", func(fr *frame, args []value) value {
		tag := mustString(args[0], "ParamFor tag")
		k := mustString(args[1], "ParamFor key")
		x := args[2].(iface)
		fr.i.params[tag+"|"+k] = paramVal{x.t, x.v}
		return nil
	})
}
